"""Seams owned by the simulator: evaluation points, file objects, the clock, the scheduler.

Nothing here draws random numbers except Sim.choose_next() (from the run's PRNG, or from a
recorded schedule on replay); logging never reads a real clock.
"""
import datetime as _real_datetime
import io
import threading
import time as _real_time

from .util import digest


class FaultInjected(Exception):
    """Harness-private exception class used as one of the injected evaluation failures."""


class HarnessError(Exception):
    """Something is wrong with the simulator itself (never reported as a VIOLATION)."""


FAULT_KINDS = ["ValueError", "ZeroDivisionError", "OverflowError", "ArithmeticError", "MemoryError",
               "RuntimeError", "FaultInjected", "Potential_Form_Exception",
               # exception types with a meaning of their own to the interpreter or to container code:
               # a writer must not mistake them for "end of data" / "missing key"
               "StopIteration", "KeyError", "IndexError", "TypeError", "AttributeError", "AssertionError", "OSError"]


def make_exception(kind):
    if kind == "ValueError":
        return ValueError("math domain error")
    if kind == "ZeroDivisionError":
        return ZeroDivisionError("float division by zero")
    if kind == "OverflowError":
        return OverflowError("math range error")
    if kind == "ArithmeticError":
        return ArithmeticError("injected arithmetic error")
    if kind == "MemoryError":
        return MemoryError()
    if kind == "RuntimeError":
        return RuntimeError("injected runtime error")
    simple = {"StopIteration": StopIteration, "KeyError": KeyError, "IndexError": IndexError, "TypeError": TypeError,
              "AttributeError": AttributeError, "AssertionError": AssertionError, "OSError": OSError}
    if kind in simple:
        return simple[kind]("injected %s from a model function" % kind)
    if kind == "Potential_Form_Exception":
        from atsim.potentials.config._common import Potential_Form_Exception
        return Potential_Form_Exception("injected: mathematical expression couldn't be evaluated")
    return FaultInjected("injected evaluation failure")


# ---------------------------------------------------------------------------------------------
# process-wide virtual time: installed BEFORE atsim is imported, so that any clock read in the
# repository (time.time/localtime/gmtime/strftime/ctime/asctime, datetime.now/utcnow/today,
# date.today) - also through `from time import ...` at import time - sees the simulated clock
# ---------------------------------------------------------------------------------------------
_GLOBAL = {"clock": None, "installed": False, "default": 1700000000.0}


def _vnow():
    c = _GLOBAL["clock"]
    return c.now if c is not None else _GLOBAL["default"]


def install_global_clock():
    if _GLOBAL["installed"]:
        return
    _GLOBAL["installed"] = True
    import time as t
    import datetime as d
    real_gmtime, real_strftime, real_asctime = t.gmtime, t.strftime, t.asctime
    real_dt, real_date = d.datetime, d.date

    def v_time():
        return _vnow()

    def v_time_ns():
        return int(_vnow() * 1e9)

    def v_gmtime(secs=None):
        return real_gmtime(_vnow() if secs is None else secs)

    def v_localtime(secs=None):
        return real_gmtime(_vnow() if secs is None else secs)      # time-zone independent

    def v_strftime(fmt, tup=None):
        return real_strftime(fmt, real_gmtime(_vnow()) if tup is None else tup)

    def v_asctime(tup=None):
        return real_asctime(real_gmtime(_vnow()) if tup is None else tup)

    def v_ctime(secs=None):
        return real_asctime(real_gmtime(_vnow() if secs is None else secs))

    t.time, t.time_ns, t.gmtime, t.localtime = v_time, v_time_ns, v_gmtime, v_localtime
    t.strftime, t.asctime, t.ctime = v_strftime, v_asctime, v_ctime

    class VirtualDateTime(real_dt):
        @classmethod
        def now(cls, tz=None):
            return cls.fromtimestamp(_vnow(), tz)

        @classmethod
        def utcnow(cls):
            return cls.fromtimestamp(_vnow(), d.timezone.utc).replace(tzinfo=None)

        @classmethod
        def today(cls):
            return cls.fromtimestamp(_vnow(), d.timezone.utc).replace(tzinfo=None)

    class VirtualDate(real_date):
        @classmethod
        def today(cls):
            x = real_dt.fromtimestamp(_vnow(), d.timezone.utc)
            return cls(x.year, x.month, x.day)

    VirtualDateTime.__name__ = "datetime"
    VirtualDate.__name__ = "date"
    d.datetime = VirtualDateTime
    d.date = VirtualDate


class SimClock(object):
    """Virtual wall clock; only the simulator advances it."""

    def __init__(self, start=1700000000.0):
        self.now = float(start)
        self.total_advance = 0.0
        self.jumps = 0
        self._installed = []

    def advance(self, dt):
        self.now += dt
        self.total_advance += abs(dt)
        self.jumps += 1

    # --- installation on the modules that read the clock while a workbook is saved ---------
    def install(self):
        import zipfile
        import openpyxl.packaging.core as opc
        import openpyxl.writer.excel as owe
        clock = self

        class _TimeFacade(object):
            def time(self_inner):
                return clock.now

            def localtime(self_inner, t=None):
                # `t` is given only by ZipInfo.from_file (the mtime of openpyxl's temporary
                # worksheet file): file times on the simulated disk are the simulated clock too
                return _real_time.gmtime(clock.now)

            def __getattr__(self_inner, name):
                return getattr(_real_time, name)

        class _DT(_real_datetime.datetime):
            @classmethod
            def now(cls, tz=None):
                return _real_datetime.datetime.fromtimestamp(clock.now, tz)

            @classmethod
            def utcnow(cls):
                return _real_datetime.datetime.fromtimestamp(clock.now, _real_datetime.timezone.utc).replace(tzinfo=None)

        class _DatetimeFacade(object):
            datetime = _DT

            def __getattr__(self_inner, name):
                return getattr(_real_datetime, name)

        for mod, attr, repl in ((zipfile, "time", _TimeFacade()), (opc, "datetime", _DatetimeFacade()),
                                (owe, "datetime", _DatetimeFacade())):
            self._installed.append((mod, attr, getattr(mod, attr)))
            setattr(mod, attr, repl)
        self._prev_global = _GLOBAL["clock"]
        _GLOBAL["clock"] = self
        return self

    def uninstall(self):
        for mod, attr, orig in reversed(self._installed):
            setattr(mod, attr, orig)
        self._installed = []
        _GLOBAL["clock"] = getattr(self, "_prev_global", None)


class SimFile(object):
    """File object handed to write(); records every write with the global event number."""

    def __init__(self, sim, binary=False, name="simfile", initial=None):
        self.sim = sim
        self.binary = binary
        self.name = name
        self._chunks = []
        self.writes = 0
        self.closed = False
        if initial:
            self._chunks.append(initial)

    def write(self, data):
        if self.closed:
            raise ValueError("I/O operation on closed file.")
        if self.binary:
            if not isinstance(data, (bytes, bytearray, memoryview)):
                raise TypeError("a bytes-like object is required, not '%s'" % type(data).__name__)
            b = bytes(data)
        else:
            if not isinstance(data, str):
                raise TypeError("write() argument must be str, not %s" % type(data).__name__)
            b = data.encode("utf-8")
        self._chunks.append(b)
        self.writes += 1
        if self.sim is not None:
            self.sim.log("write", self.name, len(b))
            self.sim.yield_point("write")
        return len(data)

    def writelines(self, lines):
        for l in lines:
            self.write(l)

    def flush(self):
        pass

    def close(self):
        self.closed = True

    def writable(self):
        return True

    def __enter__(self):
        return self

    def __exit__(self, *a):
        self.close()
        return False

    def emitted(self):
        return b"".join(self._chunks)


class RewindableSimFile(SimFile):
    """A destination that honestly supports seek()/tell()/truncate() (like a regular file or StringIO)."""

    def seekable(self):
        return True

    def tell(self):
        return len(self.emitted())

    def seek(self, pos, whence=0):
        cur = len(self.emitted())
        if whence == 1:
            pos += cur
        elif whence == 2:
            pos += cur
        if pos != cur:
            self._pos_request = pos
        return pos

    def truncate(self, size=None):
        b = self.emitted()
        if size is None:
            size = getattr(self, "_pos_request", len(b))
        self._chunks = [b[:size]]
        self._pos_request = size
        if self.sim is not None:
            self.sim.log("truncate", self.name, size)
        return size


class SeekLiarSimFile(SimFile):
    """A destination that says it is seekable and reports its position but cannot be wound back - exactly what
    gzip.GzipFile / bz2 / lzma streams opened for writing do (OSError: Negative seek in write mode)."""

    def seekable(self):
        return True

    def tell(self):
        return len(self.emitted())

    def seek(self, pos, whence=0):
        cur = len(self.emitted())
        if whence != 0:
            pos += cur
        if pos < cur:
            raise OSError("Negative seek in write mode")
        return cur

    def truncate(self, size=None):
        import io
        raise io.UnsupportedOperation("truncate")


class WriteOnlySimFile(object):
    """A destination that offers write() and nothing else."""

    def __init__(self, inner):
        self._inner = inner

    def write(self, data):
        return self._inner.write(data)


class _SubPoint(object):
    """deriv / deriv2 of an EvalPoint: counted as evaluations of the same function."""

    def __init__(self, f, role, sim):
        self._f = f
        self._role = role
        self._sim = sim

    def __call__(self, r):
        return self._sim.evaluate(self._f, self._role, r)


class EvalPoint(object):
    """Wraps one model function.  Presents `deriv` / `deriv2` iff the wrapped callable does, so
    the repository's analytic-or-numeric derivative decisions are unchanged."""

    def __init__(self, f, role, sim):
        self._f = f
        self._role = role
        self._sim = sim
        if hasattr(f, "deriv"):
            self.deriv = _SubPoint(f.deriv, role + "/deriv", sim)
        if hasattr(f, "deriv2"):
            self.deriv2 = _SubPoint(f.deriv2, role + "/deriv2", sim)

    def __call__(self, r):
        return self._sim.evaluate(self._f, self._role, r)


class Task(object):
    def __init__(self, idx):
        self.idx = idx
        self.sem = threading.Semaphore(0)
        self.done = False
        self.depth = 0
        self.op_index = -1
        self.op_evals = 0
        self.error = None
        self.thread = None


class Sim(object):
    """One simulated run: event log, evaluation counter, fault plan, clock, cooperative scheduler."""

    def __init__(self, rng=None, schedule=None, switch_prob=0.0, faults=None, max_yields=20000, clock=None):
        self.rng = rng
        self.schedule_in = list(schedule) if schedule is not None else None
        self.schedule_pos = 0
        self.schedule_out = []
        self.switch_prob = switch_prob
        self.faults = faults if faults is not None else {}   # {(task, op): {k: kind}}
        self.events = []
        self.n_events = 0
        self.eval_total = 0
        self.fired = []                     # [(task, op, k, kind, role)]
        self.yields = 0
        self.switches = 0
        self.switches_in_write = 0
        self.max_yields = max_yields
        self.clock = clock or SimClock()
        self.tasks = [Task(0)]
        self.current = self.tasks[0]
        self.threaded = False
        self.in_write = {}                  # task idx -> bool
        self.eval_roles = {}                # (task, op) -> [role,...] (reference runs only)
        self.record_roles = False
        self._main_sem = threading.Semaphore(0)
        self.keep_events = True

    # ----------------------------------------------------------------------------------------
    def log(self, kind, a=None, b=None):
        self.n_events += 1
        if self.keep_events:
            self.events.append((self.n_events, self.current.idx, kind, a, b))

    def events_digest(self):
        return digest(self.events)

    # ----------------------------------------------------------------------------------------
    def begin_op(self, op_index):
        t = self.current
        t.op_index = op_index
        t.op_evals = 0
        self.log("op", op_index)

    def evaluate(self, f, role, r):
        t = self.current
        if t.depth > 0:
            return f(r)
        t.op_evals += 1
        self.eval_total += 1
        k = t.op_evals
        self.log("eval", role, k)
        if self.record_roles:
            self.eval_roles.setdefault((t.idx, t.op_index), []).append(role)
        plan = self.faults.get((t.idx, t.op_index))
        if plan is not None and k in plan:
            kind = plan[k]
            self.fired.append((t.idx, t.op_index, k, kind, role))
            self.log("fault", kind, k)
            if kind == "returns-complex":
                # the evaluation does not raise: it hands back what Python's ** gives for a negative base and a
                # fractional exponent; the failure happens wherever the writer first needs a real number
                return complex(-0.8660254037844386, 1.5)
            raise make_exception(kind)
        self.yield_point("eval")
        t = self.current
        t.depth += 1
        try:
            return f(r)
        finally:
            t.depth -= 1

    # ----------------------------------------------------------------------------------------
    # cooperative scheduling of real threads: exactly one holds the baton
    def yield_point(self, why):
        if not self.threaded:
            return
        me = self.current
        if me.depth > 0:
            return
        self.yields += 1
        if self.yields > self.max_yields:
            raise HarnessError("step cap exceeded (%d yield points)" % self.max_yields)
        runnable = [t for t in self.tasks if not t.done]
        if len(runnable) < 2:
            return
        nxt = self.choose_next(me, runnable)
        if nxt is me:
            return
        self.switches += 1
        if self.in_write.get(me.idx):
            self.switches_in_write += 1
        self.log("switch", me.idx, nxt.idx)
        self.current = nxt
        nxt.sem.release()
        me.sem.acquire()
        # resumed: self.current was set to `me` by whoever released us

    def choose_next(self, me, runnable):
        if self.schedule_in is not None:
            if self.schedule_pos < len(self.schedule_in):
                want = self.schedule_in[self.schedule_pos]
                self.schedule_pos += 1
                for t in runnable:
                    if t.idx == want:
                        self.schedule_out.append(t.idx)
                        return t
            # recorded schedule exhausted or names a finished task: stay
            self.schedule_out.append(me.idx if not me.done else runnable[0].idx)
            return me if not me.done else runnable[0]
        if me.done:
            nxt = runnable[self.rng.randrange(len(runnable))]
        elif self.rng.random() < self.switch_prob:
            others = [t for t in runnable if t is not me]
            nxt = others[self.rng.randrange(len(others))]
        else:
            nxt = me
        self.schedule_out.append(nxt.idx)
        return nxt

    def run_tasks(self, bodies):
        """Run callables `bodies` as cooperative tasks; returns when all finished."""
        if len(bodies) == 1:
            self.threaded = False
            self.current = self.tasks[0]
            bodies[0]()
            return
        self.threaded = True
        self.tasks = [Task(i) for i in range(len(bodies))]
        errors = []

        def runner(task, body):
            task.sem.acquire()
            try:
                body()
            except BaseException as e:  # harness-level failure inside a task
                task.error = e
                errors.append(e)
            finally:
                task.done = True
                runnable = [t for t in self.tasks if not t.done]
                if runnable:
                    try:
                        nxt = self.choose_next(task, runnable)
                    except BaseException as e:
                        errors.append(e)
                        nxt = runnable[0]
                    self.log("switch", task.idx, nxt.idx)
                    self.current = nxt
                    nxt.sem.release()
                else:
                    self._main_sem.release()

        for t, b in zip(self.tasks, bodies):
            t.thread = threading.Thread(target=runner, args=(t, b), daemon=True)
            t.thread.start()
        self.current = self.tasks[0]
        self.tasks[0].sem.release()
        self._main_sem.acquire()
        for t in self.tasks:
            t.thread.join(10)
        self.threaded = False
        self.current = self.tasks[0]
        if errors:
            raise errors[0]


def instrument_tabulation(tab, sim, tag=""):
    """Install EvalPoints on the public function lists of a built tabulation object."""
    from atsim.potentials import Potential
    n = 0

    def wrap_pots(lst, role):
        cnt = 0
        for i, p in enumerate(list(lst)):
            ep = EvalPoint(p.potentialFunction, "%s%s:%s-%s" % (tag, role, p.speciesA, p.speciesB), sim)
            lst[i] = Potential(p.speciesA, p.speciesB, ep)
            cnt += 1
        return cnt

    n += wrap_pots(tab.potentials, "pair")
    if hasattr(tab, "eam_potentials"):
        for ep in tab.eam_potentials:
            ep.embeddingFunction = EvalPoint(ep.embeddingFunction, "%sembed:%s" % (tag, ep.species), sim)
            n += 1
            d = ep.electronDensityFunction
            if isinstance(d, dict):
                nd = {}
                for k, f in d.items():
                    nd[k] = EvalPoint(f, "%sdens:%s->%s" % (tag, ep.species, k), sim)
                    n += 1
                ep.electronDensityFunction = nd
            else:
                ep.electronDensityFunction = EvalPoint(d, "%sdens:%s" % (tag, ep.species), sim)
                n += 1
    if hasattr(tab, "dipole_potentials"):
        n += wrap_pots(tab.dipole_potentials, "dipole")
    if hasattr(tab, "quadrupole_potentials"):
        n += wrap_pots(tab.quadrupole_potentials, "quadrupole")
    return n


def new_fp(sim, kind, binary, name="fp"):
    if kind == "simfile":
        return SimFile(sim, binary=binary, name=name)
    if kind == "stdio":
        return io.BytesIO() if binary else io.StringIO()
    raise HarnessError("unknown fp kind %r" % kind)


def fp_bytes(fp):
    if isinstance(fp, WriteOnlySimFile):
        fp = fp._inner
    if isinstance(fp, SimFile):
        return fp.emitted()
    v = fp.getvalue()
    if isinstance(v, str):
        v = v.encode("utf-8")
    return v
