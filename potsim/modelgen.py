"""Seeded generator of potable models (ModelSpec) and their rendering to .ini text.

A ModelSpec is plain JSON data:

    {"sections": [{"name": "Tabulation", "entries": [["target", "LAMMPS"], ...]}, ...],
     "meta": {"kind": "pair|eam|fs|adp", "target": <canonical target>, "binary": bool,
              "nr": int, "nrho": int|None, "species": [...], "natural_fault": None|{...}}}

The section/entry lists are exactly the INI file, in order, so the same structure serves as
the reference model for "delete these entries by hand" (C13) and "edit the file by hand" (C14).
"""
import copy

from .util import fmt_num

PAIR_TARGETS = ["LAMMPS", "DLPOLY", "GULP", "excel"]
EAM_TARGETS = ["setfl", "DL_POLY_EAM", "excel_eam"]
FS_TARGETS = ["setfl_fs", "DL_POLY_EAM_fs", "excel_eam_fs"]
ADP_TARGETS = ["eam_adp"]
ALL_TARGETS = PAIR_TARGETS + EAM_TARGETS + FS_TARGETS + ADP_TARGETS
SYNONYMS = {"lammps_eam_alloy": "setfl", "DL_POLY": "DLPOLY"}
BINARY_TARGETS = {"excel", "excel_eam", "excel_eam_fs"}
# targets whose r grid includes r = 0
ZERO_GRID_TARGETS = {"GULP", "excel", "setfl", "DL_POLY_EAM", "excel_eam", "setfl_fs",
                     "DL_POLY_EAM_fs", "excel_eam_fs", "eam_adp"}

KIND_OF_TARGET = {}
for _t in PAIR_TARGETS:
    KIND_OF_TARGET[_t] = "pair"
for _t in EAM_TARGETS:
    KIND_OF_TARGET[_t] = "eam"
for _t in FS_TARGETS:
    KIND_OF_TARGET[_t] = "fs"
for _t in ADP_TARGETS:
    KIND_OF_TARGET[_t] = "adp"

REAL_SPECIES = ["Al", "Cu", "Fe", "Ni", "Ag", "Au", "U", "O", "Zr", "Gd", "Mg", "Si", "Th", "B", "C", "Pu"]
FAKE_SPECIES = ["Xa", "Q", "Zz9", "Abcdefg", "M1", "Lo", "vv", "K2x"]


def canonical_target(t):
    return SYNONYMS.get(t, t)


# ----------------------------------------------------------------------------------------------
# potential definitions
# ----------------------------------------------------------------------------------------------

def _u(rng, lo, hi, nd=3):
    return round(rng.uniform(lo, hi), nd)


def gen_builtin(rng, embed=False):
    """A built-in `as.*` potential-form instance with moderate parameters (finite on r>0)."""
    if embed:
        c = rng.choice(["sqrtneg", "poly", "const", "zero", "sqrt"])
        if c == "sqrtneg":
            return "as.polynomial 0 %s" % fmt_num(-_u(rng, 0.1, 2))
        if c == "poly":
            return "as.polynomial %s %s %s" % (fmt_num(_u(rng, -1, 1)), fmt_num(_u(rng, -1, 1)), fmt_num(_u(rng, -0.2, 0.2)))
        if c == "const":
            return "as.constant %s" % fmt_num(_u(rng, -2, 2))
        if c == "zero":
            return "as.zero"
        return "as.sqrt %s" % fmt_num(_u(rng, 0.5, 3))
    c = rng.choice(["bornmayer", "buck", "buck0", "constant", "coul", "exponential", "hbnd", "lj", "morse",
                    "polynomial", "sqrt", "zbl", "zero", "tang_toennies", "buck4"])
    if c == "bornmayer":
        return "as.bornmayer %s %s" % (fmt_num(_u(rng, 100, 2000, 1)), fmt_num(_u(rng, 0.2, 0.5)))
    if c == "buck":
        return "as.buck %s %s %s" % (fmt_num(_u(rng, 100, 2000, 1)), fmt_num(_u(rng, 0.2, 0.5)), fmt_num(_u(rng, 0.5, 40, 2)))
    if c == "buck0":
        return "as.buck %s %s 0.0" % (fmt_num(_u(rng, 100, 2000, 1)), fmt_num(_u(rng, 0.2, 0.5)))
    if c == "constant":
        return "as.constant %s" % fmt_num(_u(rng, -2, 2))
    if c == "coul":
        return "as.coul %s %s" % (rng.choice(["-2", "-1.2", "1", "2", "2.4", "4"]), rng.choice(["-2", "-1.2", "1", "2", "2.4"]))
    if c == "exponential":
        return "as.exponential %s %s" % (fmt_num(_u(rng, 0.1, 5)), rng.choice(["1", "2", "3", "0.5"]))
    if c == "hbnd":
        return "as.hbnd %s %s" % (fmt_num(_u(rng, 100, 1000, 1)), fmt_num(_u(rng, 10, 100, 1)))
    if c == "lj":
        return "as.lj %s %s" % (fmt_num(_u(rng, 0.01, 0.5)), fmt_num(_u(rng, 1, 3)))
    if c == "morse":
        return "as.morse %s %s %s" % (fmt_num(_u(rng, 1, 2.5)), fmt_num(_u(rng, 1, 3)), fmt_num(_u(rng, 0.1, 3)))
    if c == "polynomial":
        n = rng.randint(1, 4)
        return "as.polynomial " + " ".join(fmt_num(_u(rng, -2, 2)) for _ in range(n))
    if c == "sqrt":
        return "as.sqrt %s" % fmt_num(_u(rng, 0.5, 3))
    if c == "zbl":
        return "as.zbl %d %d" % (rng.randint(1, 92), rng.randint(1, 92))
    if c == "zero":
        return "as.zero"
    if c == "tang_toennies":
        return "as.tang_toennies %s %s %s %s %s" % (fmt_num(_u(rng, 10, 200, 1)), fmt_num(_u(rng, 1, 3)),
                                                   fmt_num(_u(rng, 1, 20)), fmt_num(_u(rng, 1, 50)), fmt_num(_u(rng, 1, 100)))
    # buck4: morelon-like values, slightly perturbed
    return "as.buck4 %s %s %s 1.2 2.1 2.6" % (fmt_num(_u(rng, 9000, 12000, 1)), fmt_num(_u(rng, 0.12, 0.15, 4)), fmt_num(_u(rng, 100, 150, 1)))


# templates of custom forms: (n_params, expression-with-{p0},{p1}.. and {r}); params given in signature
FORM_TEMPLATES = [
    (2, "{p0}*exp(-{r}/{p1})", [(100, 2000), (0.2, 0.6)]),
    (3, "{p0}*{p1}*exp(({p2}-{r})/{p1})", [(0.01, 0.1), (0.2, 0.5), (2.5, 4.0)]),
    (3, "{p0}*(exp(-2*{p1}*({r}-{p2})) - 2*exp(-{p1}*({r}-{p2})))", [(0.1, 2.0), (1.0, 2.5), (1.0, 3.0)]),
    (1, "{p0}/(1+{r}^2)", [(-3, 3)]),
    (2, "{p0}*pymath.exp(-{p1}*{r})", [(1, 100), (0.5, 3)]),
    (3, "as.buck({r}+0.5, {p0}, {p1}, {p2})", [(100, 2000), (0.2, 0.5), (0, 30)]),
    (2, "if({r} < {p1}, {p0}*({p1} - {r})^2, 0)", [(0.1, 5), (1.0, 4.0)]),
    (2, "{p0}*pymath.floor({r}*{p1})", [(-1, 1), (1, 4)]),
    (1, "-{p0}*sqrt({r})", [(0.1, 3)]),
    (2, "{p0}*{r}^2 + {p1}*{r}", [(-1, 1), (-1, 1)]),
]

NATURAL_FAULT_TEMPLATES = [
    # (label, n_params, expression, exception class name); X is the single parameter: the domain edge
    ("sqrt-domain", "pymath.sqrt({p0} - {r})", "ValueError"),
    ("log-domain", "pymath.log({p0} - {r})", "ValueError"),
    ("acos-domain", "pymath.acos({r}/{p0})", "ValueError"),
    ("unparseable", "{p0}*exp(-{r}", "Potential_Form_Exception"),
    ("factorial-domain", "pymath.factorial({p0} - {r} + 100*({p0} - {r} - pymath.floor({p0} - {r})))", "ValueError"),
]

_PNAMES = ["A", "B", "C", "D", "gamma", "r_star", "a", "b", "c", "x0", "q0", "Z"]


def gen_forms(rng, n, prefix="f", var="r", share_prob=0.5, taken=(), tables=()):
    """Generate n custom [Potential-Form] entries.  Returns list of dicts:
       {"name","params":[...names],"expr","ranges":[(lo,hi)...]} ; later forms may call earlier
       ones (sub-forms shared with different arguments)."""
    forms = []
    for i in range(n):
        name = "%s%d" % (prefix, i) if rng.random() < 0.7 else rng.choice(["basak", "mybuck", "dens", "g", "pot_form"]) + str(i) + ("e" if var != "r" else "")
        callable_forms = [f for f in forms if f["var"] == var]
        if callable_forms and rng.random() < share_prob:
            # a form built from a shared sub-form called with different arguments
            base = rng.choice(callable_forms)
            p = rng.sample(_PNAMES, 1)
            pn = p[0]

            def args(scale):
                out = []
                for j, (lo, hi) in enumerate(base["ranges"]):
                    if j == 0:
                        out.append("%s*%s" % (fmt_num(scale), pn))
                    else:
                        out.append(fmt_num(_u(rng, lo, hi)))
                return ", ".join(out)
            op = rng.choice(["+", "-", "*"])
            expr = "%s(%s, %s) %s %s(%s, %s)" % (base["name"], var, args(1.0), op, base["name"], var, args(_u(rng, 0.2, 3.0)))
            lo0, hi0 = base["ranges"][0]
            forms.append({"name": name, "params": [pn], "expr": expr, "ranges": [(lo0, hi0)], "var": var})
            continue
        npar, templ, ranges = rng.choice(FORM_TEMPLATES)
        if tables and var == "r" and rng.random() < 0.3:
            # a custom form that calls a [Table-Form] by name
            npar, templ, ranges = 1, "{p0}*%s({r}) + %s" % (rng.choice(list(tables)), fmt_num(_u(rng, -1, 1))), [(0.2, 3)]
        pn = rng.sample(_PNAMES, npar)
        d = {"r": var}
        for j, x in enumerate(pn):
            d["p%d" % j] = x
        forms.append({"name": name, "params": pn, "expr": templ.format(**d), "ranges": list(ranges), "var": var})
    # unique names
    seen = set(taken)
    out = []
    for f in forms:
        if f["name"] in seen:
            continue
        seen.add(f["name"])
        out.append(f)
    return out


def form_entry(f, rng=None):
    """Render form as INI (key, value)."""
    sep = ", " if (rng is None or rng.random() < 0.5) else ","
    key = "%s(%s)" % (f["name"], sep.join([f["var"]] + f["params"]))
    return [key, f["expr"]]


def form_instance(rng, f):
    return f["name"] + "".join(" " + fmt_num(_u(rng, lo, hi)) for lo, hi in f["ranges"])


def gen_table(rng, name, cutoff):
    n = rng.randint(5, 9)
    xs = [round(cutoff * 1.05 * i / (n - 1), 4) for i in range(n)]
    ys = [round(rng.uniform(-1, 1) + 20.0 / (1 + x * 3), 4) for x in xs]
    ys[-1] = 0.0
    if rng.random() < 0.5:
        ent = [["interpolation", "cubic_spline"],
               ["xy", " ".join("%s %s" % (fmt_num(x), fmt_num(y)) for x, y in zip(xs, ys))]]
    else:
        ent = [["x", " ".join(fmt_num(x) for x in xs)], ["y", " ".join(fmt_num(y) for y in ys)]]
        if rng.random() < 0.5:
            ent.insert(0, ["interpolation", "cubic_spline"])
    return {"name": "Table-Form:" + name, "entries": ent}


def gen_def(rng, ctx, depth=0, embed=False):
    """A potential definition in the potable language."""
    forms = [f for f in ctx.get("forms", []) if (f["var"] == ("rho" if embed else "r"))]
    tables = ctx.get("tables", []) if not embed else []
    cutoff = ctx.get("cutoff_rho" if embed else "cutoff", 4.0)
    r = rng.random()
    if depth == 0 and r < 0.15:
        # multi-range
        n = rng.randint(2, 3)
        cuts = sorted(round(rng.uniform(0.1, 0.9) * cutoff, 2) for _ in range(n - 1))
        parts = [gen_def(rng, ctx, depth + 1, embed)]
        for c in cuts:
            parts.append("%s%s %s" % (rng.choice([">", ">="]), fmt_num(c), gen_def(rng, ctx, depth + 1, embed)))
        if rng.random() < 0.3:
            parts[0] = rng.choice([">0 ", ">=0 ", ">0.0 "]) + parts[0] if not embed else parts[0]
            if parts[0].startswith(">=0") and not embed:
                # inclusive of r=0: only forms finite at 0
                parts[0] = ">=0 as.polynomial %s %s" % (fmt_num(_u(rng, -2, 2)), fmt_num(_u(rng, -1, 1)))
        return " ".join(parts)
    if depth < 2 and r < 0.35:
        m = rng.choice(["sum", "sum", "product", "pow", "trans", "spline"])
        if embed and m in ("trans", "spline"):
            m = "sum"
        if m == "sum":
            n = rng.randint(2, 3)
            return "sum(%s)" % ", ".join(gen_def(rng, ctx, depth + 2, embed) for _ in range(n))
        if m == "product":
            return "product(%s, %s)" % (gen_def(rng, ctx, depth + 2, embed), gen_def(rng, ctx, depth + 2, embed))
        if m == "pow":
            return "pow(as.constant %s, as.polynomial %s %s)" % (fmt_num(_u(rng, 0.5, 3)), fmt_num(_u(rng, -1, 1)), fmt_num(_u(rng, -0.5, 0.5)))
        if m == "trans":
            return "trans(%s, as.constant %s)" % (gen_def(rng, ctx, depth + 2, embed), fmt_num(_u(rng, 0.1, 1.0)))
        d = round(rng.uniform(0.2, 0.4) * cutoff, 2)
        a = round(rng.uniform(0.5, 0.8) * cutoff, 2)
        return "spline(as.bornmayer %s %s >%s exp_spline >%s as.bornmayer %s %s)" % (
            fmt_num(_u(rng, 500, 2000, 1)), fmt_num(_u(rng, 0.2, 0.4)), fmt_num(d), fmt_num(a),
            fmt_num(_u(rng, 100, 500, 1)), fmt_num(_u(rng, 0.3, 0.6)))
    if forms and r < 0.65:
        return form_instance(rng, rng.choice(forms))
    if tables and r < 0.75:
        return rng.choice(tables)
    return gen_builtin(rng, embed)


# ----------------------------------------------------------------------------------------------
# whole models
# ----------------------------------------------------------------------------------------------

DEFAULT_OPTS = {
    "targets": ALL_TARGETS,
    "max_species": 4,
    "nr_max": 24,
    "nrho_max": 12,
    "forms_prob": 0.6,
    "tables_prob": 0.2,
    "underspecified_prob": 0.4,
    "natural_fault_prob": 0.0,
    "synonym_prob": 0.1,
    "min_functions": 1,
    "shuffle_sections": True,
    "prefer_species": None,
    "species_override_prob": 0.2,
    "placeholders_prob": 0.0,
}


def gen_model(rng, opts=None):
    o = dict(DEFAULT_OPTS)
    if opts:
        o.update(opts)
    target = rng.choice(o["targets"])
    kind = KIND_OF_TARGET[target]
    nsp = rng.randint(min(o.get("min_species", 1), o["max_species"]), o["max_species"])
    pool_real = rng.sample(REAL_SPECIES, min(nsp, len(REAL_SPECIES)))
    if o.get("prefer_species"):
        # related models in one pool share species (so per-species state can collide)
        pref = [x for x in o["prefer_species"] if x in REAL_SPECIES]
        rng.shuffle(pref)
        pool_real = (pref + [x for x in pool_real if x not in pref])[:max(nsp, 1)]
    species = []
    fake_used = []
    for i in range(nsp):
        if rng.random() < 0.25:
            s = rng.choice([x for x in FAKE_SPECIES if x not in species])
            fake_used.append(s)
        else:
            s = pool_real[i]
        species.append(s)

    # grid
    if o.get("nr_fixed"):
        nr = int(o["nr_fixed"])
        if target == "DLPOLY":
            nr = max(8, (nr // 4) * 4)
    elif target == "DLPOLY":
        nr = 4 * rng.randint(2, max(2, o["nr_max"] // 4))
    else:
        nr = rng.randint(4, o["nr_max"])
    cutoff = rng.choice([2.0, 3.0, 4.0, 5.0, 6.5, 2.5])
    tab = [["target", target if rng.random() > o["synonym_prob"] else
            {"setfl": "lammps_eam_alloy", "DLPOLY": "DL_POLY"}.get(target, target)]]
    enc = rng.choice(["nr_cutoff", "nr_cutoff", "nr_dr"])
    if enc == "nr_cutoff":
        tab += [["nr", str(nr)], ["cutoff", fmt_num(cutoff)]]
    else:
        dr = rng.choice([0.25, 0.5, 0.125, 0.2])
        cutoff = (nr - 1) * dr
        tab += [["nr", str(nr)], ["dr", fmt_num(dr)]]
    nrho = None
    cutoff_rho = None
    if kind != "pair":
        nrho = int(o["nrho_fixed"]) if o.get("nrho_fixed") else rng.randint(3, o["nrho_max"])
        cutoff_rho = rng.choice([2.0, 10.0, 50.0, 4.0])
        if rng.random() < 0.7:
            tab += [["nrho", str(nrho)], ["cutoff_rho", fmt_num(cutoff_rho)]]
        else:
            drho = rng.choice([0.5, 1.0, 0.25])
            cutoff_rho = (nrho - 1) * drho
            tab += [["nrho", str(nrho)], ["drho", fmt_num(drho)]]
    rng.shuffle(tab)

    ctx = {"cutoff": cutoff, "cutoff_rho": cutoff_rho or 1.0, "forms": [], "tables": []}
    sections = []
    form_list = []
    table_sections = []
    if rng.random() < o["tables_prob"]:
        for i in range(rng.randint(1, 2)):
            nm = "tab%d" % i
            table_sections.append(gen_table(rng, nm, cutoff))
            ctx["tables"].append(nm)
    if rng.random() < o["forms_prob"]:
        form_list = gen_forms(rng, rng.randint(1, 4), prefix="f", var="r", tables=ctx["tables"])
        if kind != "pair" and rng.random() < 0.6:
            form_list += gen_forms(rng, rng.randint(1, 2), prefix="emb", var="rho", share_prob=0.3,
                                   taken=[f["name"] for f in form_list])
        ctx["forms"] = form_list
    # pair entries
    pairs = []
    for i, a in enumerate(species):
        for b in species[i:]:
            pairs.append((a, b))
    rng.shuffle(pairs)
    if kind == "pair":
        hi = max(1, min(len(pairs), 6))
        npair = rng.randint(min(max(1, o["min_functions"]), hi), hi)
    else:
        npair = rng.randint(0, min(len(pairs), 5))
    pair_entries = []
    for a, b in pairs[:npair]:
        if rng.random() < 0.5:
            a, b = b, a
        pair_entries.append(["%s-%s" % (a, b), gen_def(rng, ctx)])

    meta_species = []
    if kind == "pair":
        sections.append({"name": "Pair", "entries": pair_entries})
    else:
        # EAM-like
        if rng.random() < o["underspecified_prob"] and len(species) > 1:
            k = rng.randint(0, len(species) - 1)
            emb_sp = rng.sample(species, k)
        else:
            emb_sp = list(species)
            rng.shuffle(emb_sp)
        embed_entries = [[s, gen_def(rng, ctx, embed=True)] for s in emb_sp]
        dens_entries = []
        if kind in ("eam", "adp"):
            if rng.random() < o["underspecified_prob"] and len(species) > 1:
                dens_sp = rng.sample(species, rng.randint(1, len(species)))
            else:
                dens_sp = list(species)
                rng.shuffle(dens_sp)
            if not emb_sp and not dens_sp:
                dens_sp = [species[0]]
            dens_entries = [[s, gen_def(rng, ctx)] for s in dens_sp]
        else:
            allp = [(a, b) for a in species for b in species]
            rng.shuffle(allp)
            if rng.random() < o["underspecified_prob"]:
                n = rng.randint(1, len(allp))
            else:
                n = len(allp)
            dens_entries = [["%s->%s" % (a, b), gen_def(rng, ctx)] for a, b in allp[:n]]
        sections.append({"name": "EAM-Embed", "entries": embed_entries})
        sections.append({"name": "EAM-Density", "entries": dens_entries})
        sections.append({"name": "Pair", "entries": pair_entries})
        if kind == "adp":
            for nm in ("EAM-ADP-Dipole", "EAM-ADP-Quadrupole"):
                ps = list(pairs)
                rng.shuffle(ps)
                ents = [["%s-%s" % (a, b), gen_def(rng, ctx)] for a, b in ps[:rng.randint(0, min(3, len(ps)))]]
                sections.append({"name": nm, "entries": ents})
        # species metadata: needed for invented labels, optional overrides for real ones
        sp_entries = []
        for s in species:
            if s in fake_used:
                sp_entries.append(["%s.atomic_mass" % s, fmt_num(_u(rng, 1, 250, 2))])
                sp_entries.append(["%s.atomic_number" % s, str(rng.randint(1, 100))])
                if rng.random() < 0.4:
                    sp_entries.append(["%s.lattice_type" % s, rng.choice(["bcc", "fcc", "hcp"])])
            elif rng.random() < o.get("species_override_prob", 0.2):
                prop = rng.choice(["lattice_constant", "lattice_constant", "atomic_mass", "lattice_type", "atomic_number"])
                val = {"lattice_constant": fmt_num(_u(rng, 2, 6)), "atomic_mass": fmt_num(_u(rng, 1, 250, 2)),
                       "lattice_type": rng.choice(["bcc", "hcp", "sc"]), "atomic_number": str(rng.randint(1, 100))}[prop]
                sp_entries.append(["%s.%s" % (s, prop), val])
        if sp_entries:
            sections.append({"name": "Species", "entries": sp_entries})
        meta_species = list(species)

    if form_list:
        ents = [form_entry(f, rng) for f in form_list]
        sections.append({"name": "Potential-Form", "entries": ents})
    sections.extend(table_sections)
    sections.append({"name": "Tabulation", "entries": tab})
    if o["shuffle_sections"]:
        rng.shuffle(sections)

    if o.get("placeholders_prob") and rng.random() < o["placeholders_prob"]:
        add_placeholders(rng, sections)
    spec = {"sections": sections,
            "meta": {"kind": kind, "target": target, "binary": target in BINARY_TARGETS,
                     "nr": nr, "nrho": nrho, "cutoff": cutoff, "cutoff_rho": cutoff_rho,
                     "species": species, "natural_fault": None}}
    if o["natural_fault_prob"] and rng.random() < o["natural_fault_prob"]:
        add_natural_fault(rng, spec)
    return spec


FUNCTION_SECTIONS = ["Pair", "EAM-Embed", "EAM-Density", "EAM-ADP-Dipole", "EAM-ADP-Quadrupole"]

_PURE_NUMBER = None


def add_placeholders(rng, sections):
    """Replace a few numeric parameters by ${Params:NAME} placeholders (extended interpolation across
    sections) and add the [Params] section that defines them."""
    import re
    global _PURE_NUMBER
    if _PURE_NUMBER is None:
        _PURE_NUMBER = re.compile(r"^-?\d+\.\d+$")
    sec_name = rng.choice(["Params", "Params", "Constants"])
    params = []
    cands = []
    for s in sections:
        if s["name"] in FUNCTION_SECTIONS:
            for e in s["entries"]:
                toks = e[1].split(" ")
                for ti, t in enumerate(toks):
                    if _PURE_NUMBER.match(t):
                        cands.append((e, ti))
    rng.shuffle(cands)
    used = {}
    for e, ti in cands[:rng.randint(1, 4)]:
        toks = e[1].split(" ")
        if ti >= len(toks) or not _PURE_NUMBER.match(toks[ti]):
            continue
        val = toks[ti]
        if val in used and rng.random() < 0.5:
            name = used[val]
        else:
            name = "p%d" % len(params)
            params.append([name, val])
            used[val] = name
        toks[ti] = "${%s:%s}" % (sec_name, name)
        e[1] = " ".join(toks)
    if params:
        sections.insert(rng.randint(0, len(sections)), {"name": sec_name, "entries": params})
    return bool(params)


def function_entries(spec):
    """[(section_index, entry_index, section_name)] of all function-defining entries."""
    out = []
    for si, s in enumerate(spec["sections"]):
        if s["name"] in FUNCTION_SECTIONS:
            for ei, _ in enumerate(s["entries"]):
                out.append((si, ei, s["name"]))
    return out


def get_section(spec, name):
    for s in spec["sections"]:
        if s["name"] == name:
            return s
    return None


def add_natural_fault(rng, spec):
    """Make one function of the model fail by itself at some separation inside the grid."""
    fe = function_entries(spec)
    if not fe:
        return False
    si, ei, sname = rng.choice(fe)
    meta = spec["meta"]
    embed = sname == "EAM-Embed"
    cutoff = meta["cutoff_rho"] if embed else meta["cutoff"]
    var = "rho" if embed else "r"
    label, templ, exc = rng.choice(NATURAL_FAULT_TEMPLATES)
    zero_ok = meta["target"] in ZERO_GRID_TARGETS and not embed
    if zero_ok and rng.random() < 0.2:
        # singular at r = 0 through an inclusive range
        spec["sections"][si]["entries"][ei][1] = ">=0 as.buck %s %s %s" % (
            fmt_num(_u(rng, 100, 2000, 1)), fmt_num(_u(rng, 0.2, 0.5)), fmt_num(_u(rng, 1, 40, 2)))
        meta["natural_fault"] = {"label": "zero-division-at-0", "section": sname, "entry": ei, "exc": "ZeroDivisionError"}
        return True
    edge = round(rng.uniform(0.05, 0.95) * cutoff, 3)
    name = "nf%d" % rng.randint(0, 99)
    expr = templ.format(p0="X", r=var)
    pf = get_section(spec, "Potential-Form")
    if pf is None:
        pf = {"name": "Potential-Form", "entries": []}
        spec["sections"].append(pf)
    pf["entries"].insert(rng.randint(0, len(pf["entries"])), ["%s(%s, X)" % (name, var), expr])
    inst = "%s %s" % (name, fmt_num(edge))
    how = rng.random()
    if how < 0.6:
        d = inst
    elif how < 0.8:
        d = "sum(%s, %s)" % (gen_builtin(rng, embed), inst)
    else:
        # fails only in an upper range
        d = "%s >=%s %s" % (gen_builtin(rng, embed), fmt_num(round(edge * 0.5, 3)), inst)
    spec["sections"][si]["entries"][ei][1] = d
    meta["natural_fault"] = {"label": label, "section": sname, "entry": ei, "exc": exc, "edge": edge}
    return True


# ----------------------------------------------------------------------------------------------
# rendering and editing
# ----------------------------------------------------------------------------------------------

def render_ini(spec, seps=None):
    """INI text of a spec.  `seps` optionally gives a deterministic separator choice."""
    lines = []
    n = 0
    for s in spec["sections"]:
        lines.append("[%s]" % s["name"])
        for k, v in s["entries"]:
            sep = " : " if (n % 3) else " = "
            n += 1
            if "\n" in v:
                v = v.replace("\n", "\n    ")      # continuation lines of a multi-line value are indented
            lines.append("%s%s%s" % (k, sep, v))
        lines.append("")
    return "\n".join(lines) + "\n"


def retarget(spec, new_target):
    """Copy of spec with [Tabulation].target replaced (same kind only)."""
    s = copy.deepcopy(spec)
    for sec in s["sections"]:
        if sec["name"] == "Tabulation":
            for e in sec["entries"]:
                if e[0] == "target":
                    e[1] = new_target
    t = canonical_target(new_target)
    s["meta"]["target"] = t
    s["meta"]["binary"] = t in BINARY_TARGETS
    if t == "DLPOLY" and s["meta"]["nr"] % 4:
        nr = max(8, (s["meta"]["nr"] // 4) * 4)
        set_tab(s, "nr", str(nr))
        s["meta"]["nr"] = nr
    return s


def set_tab(spec, key, value):
    for sec in spec["sections"]:
        if sec["name"] == "Tabulation":
            for e in sec["entries"]:
                if e[0] == key:
                    e[1] = value
                    return True
            sec["entries"].append([key, value])
            return True
    return False


def species_of_key(section_name, key):
    """Species labels mentioned by a function entry's key."""
    k = key.replace(" ", "").replace("\t", "")
    if section_name in ("Pair", "EAM-ADP-Dipole", "EAM-ADP-Quadrupole"):
        return k.split("-")
    if section_name == "EAM-Density" and "->" in k:
        return k.split("->")
    return [k]
