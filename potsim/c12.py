"""C12 - tabulation is deterministic; evaluation is pure.

Histories of build / evaluate / write / faulted-write / drop / clock-jump operations on a pool of
1-3 related models, run as 1-3 cooperative tasks whose interleaving the seeded scheduler decides
at evaluation and write boundaries, with the wall clock virtual; plus the same models written in
fresh interpreters under several PYTHONHASHSEED values.  Every operation has an exact expected
result: by the property, output bytes and energies are functions of the model alone, so they are
compared with a pristine per-model reference child.
"""
import copy
import io
import json
import os
import random
import re
import subprocess
import sys
import zipfile

from . import modelgen as mg
from .seams import (Sim, SimClock, SimFile, instrument_tabulation, FAULT_KINDS, fp_bytes, HarnessError)
from .util import sha, short, mix64, digest, float_bits, fmt_num

PROP = "C12"
LEVEL = "exploration"
QUICK_JOBS = 480
THOROUGH_JOBS = 8000
WALL_CAP = {"quick": 240.0, "thorough": 3300.0}
STATE_MEASURE = "distinct (pool size, task count, switch probability, set of targets in the pool, mode: sequential / switch inside a write / hash-seed processes) combinations; interleavings are counted separately as distinct recorded scheduler decision sequences"

RULE = ("one case = (pool of 1-3 related generated models - .ini models, or in 15 % of the cases models built through the Python API "
        "with user callables incl. TableReader - and 1-3 tasks of up to 25 operations each: build, write, evaluate "
        "energy/force/embedding/density at grid and off-grid points and in bursts at one function's own range boundaries, write with "
        "an injected evaluation failure, read .workbook, drop+gc, clock jump; a seeded scheduler switches tasks at evaluation and write boundaries) with every operation compared "
        "against a pristine per-model reference child (output bytes, IEEE-754 bits of every evaluation); for a seeded subset the "
        "models are also written in fresh interpreters under 3-6 PYTHONHASHSEED values. non-trivial = (>=2 models or >=2 tasks, and "
        ">=1 task switch strictly inside a write) or a cross-process comparison under >=2 hash seeds or an Excel write compared "
        "across a clock jump; distinct = digest of (model pool, task programs, recorded schedule, hash-seed set).")
ASSUMPTIONS = [
    "evaluations are atomic: the scheduler pre-empts only at EvalPoint entry, SimFile writes and operation boundaries (true multi-threaded use of one potential object is outside the property)",
    "a handle shared between tasks is written by its owning task only; other tasks evaluate its functions",
    "the reference for a model is computed in a separate forked child that builds the model once, evaluates, and writes once with the virtual clock at its start value",
    "Excel outputs are compared byte-for-byte while the virtual clock is unchanged, and after normalising exactly the clock-derived fields (zip member date_time, dcterms:created/modified) once it has moved",
]
COMPONENTS = {
    "real": ["atsim.potentials (parser, registries, builders, modifiers, writers, tabulation classes)", "cexprtk", "pyparsing", "scipy", "openpyxl", "wrapt", "zipfile"],
    "simulated": ["task interleaving (baton-passing real threads, seeded scheduler)", "wall clock seen by zipfile/openpyxl (SimClock)",
                  "file objects (SimFile)", "evaluation failures (EvalPoint)", "process / PYTHONHASHSEED (fresh interpreters)"],
    "stubbed": [],
}
EXPECTED_PROBES = ["model-and-its-mirror-image-same-writer", "same-writer-different-species-counts", "evaluation-fails-inside-library-code", "build-drop-churn", "structured-boundary-pattern", "python-api-model-in-pool", "burst-of-evaluations-on-one-multi-range-function", "identical-form-text-other-helper-in-pool", "eval-exactly-at-range-boundary", "switch-inside-write", "two-tasks-same-handle", "write-after-faulted-write", "excel-write-across-clock-jump",
                   "backwards-clock-jump", "hashseed-comparison", "underspecified-eam-under-hashseeds", "shared-subform-different-args",
                   "same-form-name-different-formula-in-pool", "rebuild-same-model", "write-twice-same-handle", "eval-between-rows-of-own-write"]


# ----------------------------------------------------------------------------------------------
# xlsx normalisation: remove exactly the clock-derived fields
# ----------------------------------------------------------------------------------------------

_CORE_TS = re.compile(rb"<dcterms:(created|modified)[^>]*>[^<]*</dcterms:(created|modified)>")


def xlsx_normalised_digest(b):
    try:
        z = zipfile.ZipFile(io.BytesIO(b))
        items = []
        for info in z.infolist():
            data = z.read(info)
            if info.filename == "docProps/core.xml":
                data = _CORE_TS.sub(b"", data)
            items.append((info.filename, sha(data)))
        return digest(items)
    except Exception as e:
        return "not-a-zip:%s:%s" % (type(e).__name__, sha(b))


def xlsx_describe(b):
    """Readable summary of a workbook for diagnostics: sheet -> (rows, cols, digest of cells)."""
    try:
        import openpyxl
        wb = openpyxl.load_workbook(io.BytesIO(b))
        out = {}
        for ws in wb.worksheets:
            cells = [[c.value for c in row] for row in ws.iter_rows()]
            out[ws.title] = {"rows": ws.max_row, "cols": ws.max_column, "header": cells[0] if cells else None,
                             "cells": short(cells, 10)}
        return out
    except Exception as e:
        return {"error": repr(e)}


# ----------------------------------------------------------------------------------------------
# scenario generation
# ----------------------------------------------------------------------------------------------

def derive_variant(rng, spec, how):
    s = copy.deepcopy(spec)
    if how == "retarget":
        kind = s["meta"]["kind"]
        pool = {"pair": mg.PAIR_TARGETS, "eam": mg.EAM_TARGETS, "fs": mg.FS_TARGETS, "adp": mg.ADP_TARGETS + mg.EAM_TARGETS}[kind]
        t = rng.choice([x for x in pool if x != s["meta"]["target"]] or pool)
        s = mg.retarget(s, t)
        return s
    if how == "same-names-other-formulas":
        pf = mg.get_section(s, "Potential-Form")
        if pf is not None:
            # change a random subset of the formulas: forms that stay textually identical may call
            # sub-forms that did change
            whole = rng.random() < 0.4
            for e in pf["entries"]:
                if whole or rng.random() < 0.5:
                    e[1] = "%s*(%s) + %s" % (fmt_num(round(rng.uniform(0.5, 2.0), 3)), e[1], fmt_num(round(rng.uniform(-1, 1), 3)))
        for sec in s["sections"]:
            if sec["name"].startswith("Table-Form:") and rng.random() < 0.6:
                # same table-form name, other data
                for e in sec["entries"]:
                    if e[0] in ("y", "xy"):
                        vals = e[1].split()
                        step, start = (2, 1) if e[0] == "xy" else (1, 0)
                        for i in range(start, len(vals) - step, step):
                            vals[i] = fmt_num(round(float(vals[i]) * rng.uniform(0.6, 1.4) + 0.01, 4))
                        e[1] = " ".join(vals)
        keep_instances = pf is not None and rng.random() < 0.5
        for sec in s["sections"]:
            if sec["name"] in mg.FUNCTION_SECTIONS and not keep_instances:
                for e in sec["entries"]:
                    if rng.random() < 0.5:
                        e[1] = _perturb_numbers(rng, e[1])
        return s
    if how == "without-species-overrides":
        # the same model without its [Species] overrides of built-in elements (entries an invented label needs are kept):
        # per-species state left behind by the first model shows in the second
        changed = False
        for sec in s["sections"]:
            if sec["name"] == "Species":
                keep = []
                for e in sec["entries"]:
                    label = e[0].split(".")[0].strip()
                    if label in mg.REAL_SPECIES:
                        changed = True
                    else:
                        keep.append(e)
                sec["entries"] = keep
        s["sections"] = [sec for sec in s["sections"] if not (sec["name"] == "Species" and not sec["entries"])]
        return s if changed else None
    if how == "other-helper":
        # everything textually identical except the helper that `outer` calls
        pf = mg.get_section(s, "Potential-Form")
        changed = False
        if pf is not None:
            for e in pf["entries"]:
                if e[0].startswith("inner("):
                    e[1] = "%s*(%s)" % (fmt_num(round(rng.uniform(0.4, 2.5), 3)), e[1])
                    changed = True
        for sec in s["sections"]:
            if sec["name"] == "Table-Form:helper_tab":
                for e in sec["entries"]:
                    if e[0] in ("y", "xy"):
                        vals = e[1].split()
                        step, start = (2, 1) if e[0] == "xy" else (1, 0)
                        for i in range(start, len(vals) - step, step):
                            vals[i] = fmt_num(round(float(vals[i]) * rng.uniform(0.5, 1.5) + 0.02, 4))
                        e[1] = " ".join(vals)
                        changed = True
        return s if changed else None
    if how == "pair-from-eam":
        if s["meta"]["kind"] == "pair":
            return s
        keep = [x for x in s["sections"] if x["name"] in ("Pair", "Potential-Form") or x["name"].startswith("Table-Form")]
        pair = mg.get_section(s, "Pair")
        if not pair or not pair["entries"]:
            return None
        # rho-forms stay harmless in a pair model
        t = rng.choice(mg.PAIR_TARGETS)
        nr = s["meta"]["nr"]
        if t == "DLPOLY":
            nr = max(8, (nr // 4) * 4)
        keep.append({"name": "Tabulation", "entries": [["target", t], ["nr", str(nr)], ["cutoff", fmt_num(s["meta"]["cutoff"])]]})
        return {"sections": keep, "meta": {"kind": "pair", "target": t, "binary": t in mg.BINARY_TARGETS, "nr": nr, "nrho": None,
                                            "cutoff": s["meta"]["cutoff"], "cutoff_rho": None, "species": s["meta"]["species"],
                                            "natural_fault": None}}
    return s


def ensure_shared_subform(rng, spec):
    """Make sure the model has a custom form `outer` that calls a helper (`inner` form or a table-form) and that
    some function entry uses `outer`.  Returns the helper's (section name, entry key) or None."""
    fe = [(si, ei) for si, ei, nm in mg.function_entries(spec) if nm != "EAM-Embed"]
    if not fe:
        return None
    pf = mg.get_section(spec, "Potential-Form")
    if pf is None:
        pf = {"name": "Potential-Form", "entries": []}
        spec["sections"].append(pf)
    names = [e[0].split("(")[0].strip() for e in pf["entries"]]
    if "outer" in names or "inner" in names:
        return None
    use_table = rng.random() < 0.4
    if use_table:
        tname = "helper_tab"
        spec["sections"].append(mg.gen_table(rng, tname, spec["meta"]["cutoff"]))
        helper = ("Table-Form:" + tname, None)
        pf["entries"].append(["outer(r, b)", "b*%s(r) + %s" % (tname, fmt_num(round(rng.uniform(-1, 1), 3)))])
    else:
        pf["entries"].insert(rng.randint(0, len(pf["entries"])), ["inner(r, a)", "a*exp(-r/%s)" % fmt_num(round(rng.uniform(0.3, 1.2), 3))])
        helper = ("Potential-Form", "inner(r, a)")
        pf["entries"].append(["outer(r, b)", "b*inner(r, %s) + inner(r, %s)" % (fmt_num(round(rng.uniform(0.5, 3), 3)), fmt_num(round(rng.uniform(0.5, 3), 3)))])
    for si, ei in rng.sample(fe, min(len(fe), rng.randint(1, 2))):
        spec["sections"][si]["entries"][ei][1] = "outer %s" % fmt_num(round(rng.uniform(0.2, 4), 3))
    return helper


def _perturb_numbers(rng, d):
    def rep(m):
        x = float(m.group(0))
        if rng.random() < 0.5:
            return m.group(0)
        return fmt_num(round(x * rng.uniform(0.8, 1.25), 4))
    # only perturb parameters of built-in forms (tokens after 'as.name'), keep range markers intact
    toks = d.split(" ")
    out = []
    for t in toks:
        if re.fullmatch(r"-?\d+\.\d+", t):
            out.append(rep(re.match(r"-?\d+\.\d+", t)))
        else:
            out.append(t)
    return " ".join(out)


def gen_scenario(seed, tier="quick", mode=None):
    rng = random.Random(seed)
    if mode == "same-writer":
        return gen_same_writer_scenario(rng, seed, tier)
    if mode == "mirrored":
        return gen_mirrored_scenario(rng, seed, tier)
    hs_run = rng.random() < 0.15
    opts = {"nr_max": 12, "nrho_max": 6, "max_species": 4, "forms_prob": 0.8, "tables_prob": 0.3, "species_override_prob": 0.35,
            # some functions fail by themselves beyond a separation inside the grid: a failed evaluation *inside* the
            # library's own code (not at the harness wrapper) is a history element too
            "natural_fault_prob": 0.2}
    if hs_run and rng.random() < 0.7:
        opts.update({"targets": mg.EAM_TARGETS + mg.FS_TARGETS + mg.ADP_TARGETS + ["setfl", "setfl_fs", "DL_POLY_EAM_fs"],
                     "underspecified_prob": 0.9, "max_species": 4, "min_species": 2})
    elif hs_run:
        opts.update({"max_species": 4, "min_species": 3, "min_functions": 4})
    api_pool = (not hs_run) and rng.random() < 0.15
    if api_pool:
        from . import apimodel
        base = apimodel.gen_api_model(rng, natural=False, tier=tier)
        helper = None
    else:
        base = mg.gen_model(rng, opts)
        helper = ensure_shared_subform(rng, base) if rng.random() < 0.35 else None
    models = [base]
    nmodels = rng.choice([1, 2, 2, 3])
    if helper and nmodels == 1:
        nmodels = 2
    tags = ["base"]
    guard = 0
    while len(models) < nmodels and guard < 20:
        guard += 1
        how = rng.choice(["retarget", "same-names-other-formulas", "same-names-other-formulas", "pair-from-eam", "independent", "identical"])
        if (not api_pool) and base["meta"]["kind"] != "pair" and "without-species-overrides" not in tags and \
                any(sec["name"] == "Species" and any(e[0].split(".")[0].strip() in mg.REAL_SPECIES for e in sec["entries"]) for sec in base["sections"]):
            how = "without-species-overrides"
        if api_pool:
            how = rng.choice(["independent", "identical"])
        if helper and "other-helper" not in tags:
            how = "other-helper"
        if how == "independent" and api_pool:
            from . import apimodel
            m = apimodel.gen_api_model(rng, natural=False, tier=tier)
        elif how == "independent":
            o2 = dict(opts)
            if rng.random() < 0.7:
                o2["prefer_species"] = list(base["meta"]["species"])
                o2["species_override_prob"] = 0.5
            if rng.random() < 0.5:
                o2["targets"] = [base["meta"]["target"]]      # same writer, other model: per-writer state collides
            m = mg.gen_model(rng, o2)
        elif how == "identical":
            m = copy.deepcopy(rng.choice(models))
        elif how in ("other-helper", "without-species-overrides"):
            m = derive_variant(rng, base, how)
            if m is None and how == "without-species-overrides":
                how = "identical"
                m = copy.deepcopy(base)
        else:
            m = derive_variant(rng, rng.choice(models), how)
        if m is None:
            continue
        models.append(m)
        tags.append(how)
    ntasks = rng.choice([1, 1, 2, 2, 3])
    switch_prob = rng.choice([0.0, 0.05, 0.3, 0.8]) if ntasks > 1 else 0.0
    sc = {"property": PROP, "seed": seed, "tier": tier, "potsim": 1, "models": models, "model_tags": tags,
          "switch_prob": switch_prob, "schedule": None, "sched_seed": rng.randrange(1 << 30),
          "fp_kind": rng.choice(["simfile", "simfile", "stdio"]), "clock_start": 1700000000.0 + rng.randrange(0, 86400 * 365)}
    # shared handles built before the tasks start: owner task may write them, others evaluate them
    shared = []
    if ntasks > 1 and rng.random() < 0.7:
        for i in range(rng.randint(1, 2)):
            shared.append({"h": "g%d" % i, "m": rng.randrange(len(models)), "owner": rng.randrange(ntasks)})
    sc["shared"] = shared
    tasks = []
    for t in range(ntasks):
        ops = []
        mine = []           # handles this task may write
        readable = [s["h"] for s in shared]
        for s in shared:
            if s["owner"] == t:
                mine.append(s["h"])
        hmodel = {s["h"]: s["m"] for s in shared}
        nops = rng.randint(3, 25 if tier == "thorough" else 14)
        nh = 0
        for _ in range(nops):
            r = rng.random()
            if (not mine and not readable) or r < 0.18:
                h = "t%dh%d" % (t, nh)
                nh += 1
                m = rng.randrange(len(models))
                ops.append({"op": "build", "h": h, "m": m})
                mine.append(h)
                readable.append(h)
                hmodel[h] = m
            elif r < 0.45 and mine:
                ops.append({"op": "write", "h": rng.choice(mine)})
            elif r < 0.52 and readable:
                # a burst of evaluations of ONE function at its own interesting points, in arbitrary order:
                # range boundaries (exactly / just either side), grid points, interior points
                h = rng.choice(readable)
                defs = function_definitions(models[hmodel[h]])
                multi = sorted(l for l, d in defs.items() if _BOUNDARY.search(d) or re.search(r"\bnf\d+\b", d))
                labs = multi if (multi and rng.random() < 0.8) else sorted(defs)
                if labs:
                    fl = rng.choice(labs)
                    what = rng.choice(["energy", "energy", "force"])
                    nb = len(own_boundaries(models[hmodel[h]], fl))
                    if nb and rng.random() < 0.45:
                        # structured probes for state remembered between evaluations: (far above, exactly on, just above),
                        # (just above, exactly on, just below), descending sweeps over every boundary, repeats
                        pat = rng.choice(["above-on-justabove", "justabove-on-below", "descending", "on-repeat"])
                        bi_lo = rng.randrange(nb)
                        bi_hi = rng.randrange(nb)
                        if pat == "above-on-justabove":
                            pts = [(max(bi_lo, bi_hi), rng.choice([0.05, 0.3, 1e-9])), (min(bi_lo, bi_hi), 0.0),
                                   (min(bi_lo, bi_hi), rng.choice([1e-9, 0.05, 0.01]))]
                            if rng.random() < 0.5:
                                pts.insert(0, (nb - 1, 0.5))
                        elif pat == "justabove-on-below":
                            pts = [(bi_lo, rng.choice([1e-9, 0.05])), (bi_lo, 0.0), (bi_lo, rng.choice([-1e-9, -0.05])), (bi_lo, 0.0)]
                        elif pat == "descending":
                            pts = []
                            for b in range(nb - 1, -1, -1):
                                pts += [(b, 0.05), (b, 0.0), (b, -0.05)]
                            pts = pts[:9]
                        else:
                            pts = [(bi_lo, 0.0), (bi_hi, 0.3), (bi_lo, 0.0), (bi_lo, 1e-9), (bi_lo, 0.0)]
                        for b, eps in pts:
                            ops.append({"op": "eval", "h": h, "fi": 0, "fl": fl, "what": what, "ri": 0, "off": 0.0,
                                        "bi": b, "own": True, "eps": eps})
                        continue
                    for _ in range(rng.randint(3, 6)):
                        op = {"op": "eval", "h": h, "fi": 0, "fl": fl, "what": what, "ri": rng.randrange(64),
                              "off": rng.choice([0.0, 0.0, 0.5, 0.013, -0.25])}
                        if rng.random() < 0.6:
                            op["bi"] = rng.randrange(64)
                            op["own"] = True
                            op["eps"] = rng.choice([0.0, 0.0, 0.0, 1e-9, -1e-9, 0.05, -0.05])
                        ops.append(op)
            elif r < 0.80 and readable:
                h = rng.choice(readable)
                op = {"op": "eval", "h": h, "fi": rng.randrange(64), "what": rng.choice(["energy", "energy", "force"]),
                      "ri": rng.randrange(64), "off": rng.choice([0.0, 0.0, 0.5, 0.013, -0.25])}
                if rng.random() < 0.3:
                    # exactly at / just either side of a range boundary written in the model
                    op["bi"] = rng.randrange(64)
                    op["eps"] = rng.choice([0.0, 0.0, 1e-9, -1e-9])
                ops.append(op)
            elif r < 0.83 and len(models) >= 2:
                # churn: build and drop models in turn, then build one and write it - state keyed on object identity
                # (id(), weak references) meets recycled addresses here
                cyc = rng.randint(2, 5)
                for c in range(cyc):
                    hc = "t%dh%d" % (t, nh)
                    nh += 1
                    mc = rng.randrange(len(models))
                    ops.append({"op": "build", "h": hc, "m": mc})
                    hmodel[hc] = mc
                    if rng.random() < 0.5:
                        ops.append({"op": "eval", "h": hc, "fi": rng.randrange(64), "what": "energy", "ri": rng.randrange(64), "off": 0.0})
                    if c < cyc - 1:
                        ops.append({"op": "drop", "h": hc})
                    else:
                        ops.append({"op": "write", "h": hc})
                        mine.append(hc)
                        readable.append(hc)
            elif r < 0.87 and mine:
                ops.append({"op": "write_faulted", "h": rng.choice(mine), "kf": round(rng.random(), 4), "kind": rng.choice(FAULT_KINDS)})
            elif r < 0.90 and mine:
                ops.append({"op": "touch_workbook", "h": rng.choice(mine)})
            elif r < 0.94 and mine:
                h = rng.choice(mine)
                if not h.startswith("g"):
                    mine.remove(h)
                    readable.remove(h)
                    ops.append({"op": "drop", "h": h})
            else:
                ops.append({"op": "clock_jump", "dt": rng.choice([0.0, 1.0, 2.0, 3.0, 61.0, 3600.0, 86400.0, -2.0, -3600.0, 0.4])})
        tasks.append(ops)
    sc["tasks"] = tasks
    sc["hashseeds"] = None
    if hs_run:
        pool = [0, 1, 2, 3, 5, 7, 11, 42, 1234, 99999, 2 ** 31, 2 ** 32 - 1, 4000000000]
        hs = {0, rng.choice([2 ** 31, 2 ** 32 - 1, 4000000000])}
        while len(hs) < rng.randint(3, 6):
            hs.add(rng.choice(pool))
        sc["hashseeds"] = sorted(hs)
    return sc


def gen_same_writer_scenario(rng, seed, tier):
    """Additional scenarios (appended to the job list, so the ordinary ones keep their random streams): two or
    three independent models for the SAME EAM-family writer with different numbers of species, built and written
    one after another in one task - state kept per writer (module-level defaults, class attributes) collides here."""
    target = rng.choice(mg.EAM_TARGETS + mg.FS_TARGETS + mg.ADP_TARGETS)
    counts = rng.sample([1, 2, 3, 4], rng.choice([2, 3]))
    models = []
    for n in counts:
        models.append(mg.gen_model(rng, {"targets": [target], "nr_max": 10, "nrho_max": 5, "min_species": n, "max_species": n,
                                         "underspecified_prob": 0.0, "forms_prob": 0.3, "tables_prob": 0.0}))
    order = list(range(len(models)))
    rng.shuffle(order)
    ops = []
    for i, m in enumerate(order):
        ops.append({"op": "build", "h": "t0h%d" % i, "m": m})
        ops.append({"op": "write", "h": "t0h%d" % i})
    if rng.random() < 0.5:
        ops.append({"op": "write", "h": "t0h0"})
    return {"property": PROP, "seed": seed, "tier": tier, "potsim": 1, "models": models, "model_tags": ["same-writer"] * len(models),
            "switch_prob": 0.0, "schedule": None, "sched_seed": rng.randrange(1 << 30), "fp_kind": "simfile",
            "clock_start": 1700000000.0 + rng.randrange(0, 86400 * 365), "shared": [], "tasks": [ops], "hashseeds": None}


def gen_mirrored_scenario(rng, seed, tier):
    """Additional scenarios (appended): a model and its mirror image - every function without range markers wrapped
    in product(as.constant -1.0, ...), one function being as.zero - for the same writer, written one after the other.
    The two tables hold the same magnitudes with opposite signs, +0.0 against -0.0 included: state keyed on values
    that compare equal but print differently (memoised formatting, value caches) collides here."""
    target = rng.choice(mg.ALL_TARGETS)
    base = mg.gen_model(rng, {"targets": [target], "nr_max": 10, "nrho_max": 5, "max_species": 3, "underspecified_prob": 0.0,
                              "forms_prob": 0.3, "tables_prob": 0.1})
    fe = mg.function_entries(base)
    if fe:
        si, ei, _ = rng.choice(fe)
        base["sections"][si]["entries"][ei][1] = "as.zero"
    zeros = rng.random() < 0.5
    if zeros:
        # both tables hold nothing but zeros: +0.0 in one, -0.0 in the other (whatever the writer formats first is a zero
        # of the model's own sign)
        for si, ei, _ in fe:
            base["sections"][si]["entries"][ei][1] = ">=0 as.constant 0.0"
    if base["meta"]["kind"] != "pair":
        # no zero among the header constants (lattice constants default to 0.0 and are formatted before any table value)
        sp_sec = mg.get_section(base, "Species")
        if sp_sec is None:
            sp_sec = {"name": "Species", "entries": []}
            base["sections"].append(sp_sec)
        have = {e[0].replace(" ", "") for e in sp_sec["entries"]}
        for sp in base["meta"]["species"]:
            if sp + ".lattice_constant" not in have:
                sp_sec["entries"].append([sp + ".lattice_constant", fmt_num(round(rng.uniform(2.5, 5.5), 3))])
    mirror = copy.deepcopy(base)
    for si, ei, _ in fe:
        d = mirror["sections"][si]["entries"][ei][1]
        if zeros or not _BOUNDARY.search(d):
            # in the all-zeros flavour the range includes its start and the constant is -0.0 itself, so that the very first
            # grid value is a -0.0 too (with the default '>0' range the value exactly at 0 is +0.0 whatever the function,
            # and modifiers inside an explicit range add their result to 0.0, which loses the sign)
            mirror["sections"][si]["entries"][ei][1] = ">=0 as.constant -0.0" if zeros else "product(as.constant -1.0, %s)" % d
    models = [base, mirror]
    order = [0, 1] if rng.random() < 0.5 else [1, 0]
    ops = []
    for i, m in enumerate(order):
        ops.append({"op": "build", "h": "t0h%d" % i, "m": m})
        ops.append({"op": "write", "h": "t0h%d" % i})
    ops.append({"op": "write", "h": "t0h0"})
    for _ in range(rng.randint(0, 4)):
        ops.append({"op": "eval", "h": "t0h%d" % rng.randrange(2), "fi": rng.randrange(64), "what": rng.choice(["energy", "force"]),
                    "ri": rng.randrange(64), "off": rng.choice([0.0, 0.5])})
    return {"property": PROP, "seed": seed, "tier": tier, "potsim": 1, "models": models, "model_tags": ["mirrored-base", "mirrored"],
            "switch_prob": 0.0, "schedule": None, "sched_seed": rng.randrange(1 << 30), "fp_kind": "simfile",
            "clock_start": 1700000000.0 + rng.randrange(0, 86400 * 365), "shared": [], "tasks": [ops], "hashseeds": None}


# ----------------------------------------------------------------------------------------------
# execution
# ----------------------------------------------------------------------------------------------

def _build(spec, sim, tag):
    if spec.get("api"):
        from .apimodel import ApiTarget
        return ApiTarget(spec, sim, instrument=True)
    from atsim.potentials.config import Configuration
    tab = Configuration().read(io.StringIO(mg.render_ini(spec)))
    instrument_tabulation(tab, sim, tag="")
    return tab


def _functions(tab):
    """Ordered list of (label, callable-kind, object) of the evaluable functions of a tabulation."""
    out = []
    for p in tab.potentials:
        out.append(("pair:%s-%s" % (p.speciesA, p.speciesB), "pot", p))
    if hasattr(tab, "eam_potentials"):
        for ep in tab.eam_potentials:
            out.append(("embed:%s" % ep.species, "rho", ep.embeddingFunction))
            d = ep.electronDensityFunction
            if isinstance(d, dict):
                for k in sorted(d):
                    out.append(("dens:%s->%s" % (ep.species, k), "r", d[k]))
            else:
                out.append(("dens:%s" % ep.species, "r", d))
    for nm in ("dipole_potentials", "quadrupole_potentials"):
        for p in getattr(tab, nm, []) or []:
            out.append(("%s:%s-%s" % (nm[:-11], p.speciesA, p.speciesB), "pot", p))
    out.sort(key=lambda x: x[0])
    return out


_BOUNDARY = re.compile(r">=?\s*(\d+(?:\.\d+)?)")


def range_boundaries(spec):
    """Every range-start value written in the model's function definitions (sorted, unique)."""
    if spec.get("api"):
        from .apimodel import function_fdescs, fdesc_boundaries
        return sorted(set(b for fd in function_fdescs(spec).values() for b in fdesc_boundaries(fd)))
    out = set()
    for s in spec["sections"]:
        if s["name"] in mg.FUNCTION_SECTIONS:
            for k, d in s["entries"]:
                for m in _BOUNDARY.finditer(d):
                    out.add(float(m.group(1)))
    nf = spec["meta"].get("natural_fault") or {}
    if nf.get("edge") is not None:
        out.add(float(nf["edge"]))
    return sorted(out)


_LABEL_PREFIX = {"Pair": "pair", "EAM-Embed": "embed", "EAM-Density": "dens", "EAM-ADP-Dipole": "dipole", "EAM-ADP-Quadrupole": "quadrupole"}


def function_definitions(spec):
    """{harness label: definition text} for every function entry written in the model."""
    if spec.get("api"):
        from .apimodel import function_fdescs, fdesc_boundaries
        # render the boundaries in the textual form the boundary regex understands
        return {lab: " ".join(">%s" % fmt_num(b) for b in fdesc_boundaries(fd)) or "plain" for lab, fd in function_fdescs(spec).items()}
    out = {}
    for s in spec["sections"]:
        if s["name"] in _LABEL_PREFIX:
            for k, d in s["entries"]:
                sp = [x.strip() for x in mg.species_of_key(s["name"], k)]
                if s["name"] == "EAM-Density" and len(sp) == 2:
                    lab = "dens:%s->%s" % (sp[0], sp[1])
                elif len(sp) == 2:
                    lab = "%s:%s-%s" % (_LABEL_PREFIX[s["name"]], sp[0], sp[1])
                else:
                    lab = "%s:%s" % (_LABEL_PREFIX[s["name"]], sp[0])
                out[lab] = d
    return out


def own_boundaries(spec, label):
    d = function_definitions(spec).get(label)
    if not d:
        return []
    out = set(float(m.group(1)) for m in _BOUNDARY.finditer(d))
    nf = spec["meta"].get("natural_fault") or {}
    if nf.get("edge") is not None and re.search(r"\bnf\d+\b", d):
        out.add(float(nf["edge"]))           # the separation beyond which this function fails by itself
    return sorted(out)


def _eval(tab, spec, op):
    fs = _functions(tab)
    if not fs:
        return {"none": True}
    label, kind, obj = fs[op["fi"] % len(fs)]
    if op.get("fl"):
        for cand in fs:
            if cand[0] == op["fl"]:
                label, kind, obj = cand
                break
    meta = spec["meta"]
    if kind == "rho":
        n, cut = meta["nrho"], meta["cutoff_rho"]
    else:
        n, cut = meta["nr"], meta["cutoff"]
    i = op["ri"] % n
    x = (i + op["off"]) * cut / float(n - 1)
    if "bi" in op:
        bs = (own_boundaries(spec, label) if op.get("own") else []) or range_boundaries(spec)
        if bs:
            x = bs[op["bi"] % len(bs)] + op.get("eps", 0.0)
    if x < 0:
        x = 0.0
    try:
        if kind == "pot":
            val = obj.energy(x) if op["what"] == "energy" else obj.force(x)
        else:
            val = obj(x)
        return {"f": label, "x": float_bits(x), "bits": float_bits(val)}
    except Exception as e:
        return {"f": label, "x": float_bits(x), "exc": type(e).__name__}


def _write(tab, spec, sim, fp_kind, name, clock0):
    binary = spec["meta"]["binary"]
    fp = SimFile(sim, binary=binary, name=name) if fp_kind == "simfile" else (io.BytesIO() if binary else io.StringIO())
    try:
        tab.write(fp)
    except Exception as e:
        b = fp_bytes(fp)
        return {"exc": type(e).__name__, "msg": str(e)[:160], "emitted": len(b)}
    b = fp_bytes(fp)
    # "moved" = the clock has been anywhere else than its start value at any time so far: a workbook
    # captures its creation time when it is built, which may be earlier than this write
    out = {"sha": sha(b), "len": len(b), "clock_moved": sim.clock.total_advance > 0 or sim.clock.now != clock0}
    if binary:
        out["norm"] = xlsx_normalised_digest(b)
    else:
        out["head"] = b[:200].decode("utf-8", "replace")
    return out


def execute_reference(arg):
    """Pristine reference for ONE model: build once, evaluate the listed points, write once."""
    from .core import point_atsim_at_repo
    point_atsim_at_repo()
    import logging
    logging.disable(logging.CRITICAL)
    spec, evals, clock_start = arg["model"], arg["evals"], arg["clock_start"]
    clock = SimClock(clock_start).install()
    sim = Sim(clock=clock)
    sim.record_roles = True
    out = {"evals": {}}
    try:
        try:
            tab = _build(spec, sim, "")
        except Exception as e:
            out["build_error"] = "%s: %s" % (type(e).__name__, str(e)[:200])
            return out
        sim.begin_op(0)
        for key, op in evals:
            out["evals"][key] = _eval(tab, spec, op)
        sim.begin_op(1)
        out["write"] = _write(tab, spec, sim, "simfile", "ref", clock_start)
        out["n_evals"] = sim.current.op_evals
    finally:
        clock.uninstall()
    return out


def execute(sc):
    """Run the scenario's tasks under the scheduler; returns per-op results and the schedule."""
    from .core import point_atsim_at_repo
    point_atsim_at_repo()
    import gc
    import logging
    logging.disable(logging.CRITICAL)
    clock0 = sc["clock_start"]
    clock = SimClock(clock0).install()
    faults = {}
    sim = Sim(rng=random.Random(sc["sched_seed"]), schedule=sc.get("schedule"), switch_prob=sc["switch_prob"], faults=faults, clock=clock)
    out = {"tasks": [[] for _ in sc["tasks"]], "setup": []}
    handles = {}
    hmodel = {}
    try:
        sim.begin_op(-1)
        for s in sc.get("shared", []):
            try:
                handles[s["h"]] = _build(sc["models"][s["m"]], sim, s["h"])
                hmodel[s["h"]] = s["m"]
                out["setup"].append({"ok": True})
            except Exception as e:
                out["setup"].append({"exc": type(e).__name__, "msg": str(e)[:160]})

        def body(ti):
            def run():
                res = out["tasks"][ti]
                for oi, op in enumerate(sc["tasks"][ti]):
                    sim.begin_op(oi)
                    kind = op["op"]
                    h = op.get("h")
                    try:
                        if kind == "build":
                            handles[h] = _build(sc["models"][op["m"]], sim, h)
                            hmodel[h] = op["m"]
                            res.append({"ok": True})
                        elif kind == "clock_jump":
                            clock.advance(op["dt"])
                            sim.log("clock", op["dt"])
                            res.append({"ok": True})
                        elif kind == "drop":
                            handles.pop(h, None)
                            gc.collect()
                            res.append({"ok": True})
                        elif h not in handles:
                            res.append({"skipped": "no-handle"})
                        elif kind == "eval":
                            res.append(_eval(handles[h], sc["models"][hmodel[h]], op))
                        elif kind == "write":
                            sim.in_write[ti] = True
                            try:
                                res.append(_write(handles[h], sc["models"][hmodel[h]], sim, sc["fp_kind"], "%s.%d" % (h, oi), clock0))
                            finally:
                                sim.in_write[ti] = False
                        elif kind == "write_faulted":
                            N = op.get("N") or 1
                            k = max(1, min(N, int(op["kf"] * N) + 1))
                            faults[(ti, oi)] = {k: op["kind"]}
                            sim.in_write[ti] = True
                            try:
                                r = _write(handles[h], sc["models"][hmodel[h]], sim, sc["fp_kind"], "%s.%d" % (h, oi), clock0)
                            finally:
                                sim.in_write[ti] = False
                            r["fired"] = any(f[0] == ti and f[1] == oi for f in sim.fired)
                            r["k"] = k
                            res.append(r)
                        elif kind == "touch_workbook":
                            tab = handles[h]
                            if hasattr(tab, "has_workbook") and not tab.has_workbook():
                                res.append({"ok": True, "na": True})
                            elif hasattr(tab, "workbook"):
                                try:
                                    tab.workbook
                                    res.append({"ok": True})
                                except Exception as e:
                                    res.append({"exc": type(e).__name__})
                            else:
                                res.append({"ok": True, "na": True})
                        else:
                            raise HarnessError("unknown op %r" % (kind,))
                    except HarnessError:
                        raise
                    except Exception as e:
                        res.append({"exc": type(e).__name__, "msg": str(e)[:160], "unexpected": True})
                    sim.yield_point("op")
            return run

        sim.run_tasks([body(i) for i in range(len(sc["tasks"]))])
    finally:
        clock.uninstall()
    out["schedule"] = sim.schedule_out
    out["events_digest"] = sim.events_digest()
    out["n_events"] = sim.n_events
    out["yields"] = sim.yields
    out["switches"] = sim.switches
    out["switches_in_write"] = sim.switches_in_write
    out["evals_total"] = sim.eval_total
    out["clock_advance"] = sim.clock.total_advance
    out["clock_jumps"] = sim.clock.jumps
    out["fired"] = [list(f) for f in sim.fired]
    return out


def execute_hashseed(spec, hashseed, timeout=120):
    """Write the model in a fresh interpreter under PYTHONHASHSEED=hashseed; returns {"sha",...}."""
    from .core import repo_dir, VERIF_DIR
    env = dict(os.environ)
    env["PYTHONPATH"] = VERIF_DIR
    env["POTSIM_REPO"] = repo_dir()
    env["PYTHONHASHSEED"] = str(hashseed)
    env["POTSIM_KEEP_HASHSEED"] = "1"
    p = subprocess.run([sys.executable, "-W", "ignore", "-m", "potsim.c12", "hashseed-child"], input=json.dumps(spec).encode(),
                       env=env, stdout=subprocess.PIPE, stderr=subprocess.PIPE, timeout=timeout)
    if p.returncode != 0:
        return {"harness_error": "hashseed child failed rc=%d: %s" % (p.returncode, p.stderr.decode("utf-8", "replace")[-400:])}
    try:
        return json.loads(p.stdout.decode())
    except Exception as e:
        return {"harness_error": "hashseed child output unparseable: %r %r" % (e, p.stdout[-200:])}


def _hashseed_child_main():
    from .core import point_atsim_at_repo
    point_atsim_at_repo()
    import logging
    logging.disable(logging.CRITICAL)
    spec = json.loads(sys.stdin.read())
    clock = SimClock(spec.get("_clock_start", 1700000000.0)).install()
    sim = Sim(clock=clock)
    try:
        tab = _build(spec, sim, "")
        r = _write(tab, spec, sim, "simfile", "hs", clock.now)
    except Exception as e:
        r = {"exc": type(e).__name__, "msg": str(e)[:200]}
    r["hashseed_env"] = os.environ.get("PYTHONHASHSEED")
    sys.stdout.write(json.dumps(r))


# ----------------------------------------------------------------------------------------------
# oracle
# ----------------------------------------------------------------------------------------------

def eval_key(op):
    return "%d/%s/%d/%s/%s/%s/%s/%s" % (op["fi"], op["what"], op["ri"], op["off"], op.get("bi"), op.get("eps"), op.get("fl"), op.get("own"))


def collect_evals(sc):
    """Per model: [(key, op)] of every eval op in the scenario (key identifies (fi, what, ri, off))."""
    per = {i: {} for i in range(len(sc["models"]))}
    hmodel = {s["h"]: s["m"] for s in sc.get("shared", [])}
    # handle -> model is static per name (names are unique per build op)
    for ops in sc["tasks"]:
        for op in ops:
            if op["op"] == "build":
                hmodel[op["h"]] = op["m"]
    for ops in sc["tasks"]:
        for op in ops:
            if op["op"] == "eval" and op["h"] in hmodel:
                per[hmodel[op["h"]]][eval_key(op)] = op
    return per, hmodel


def judge(sc, refs, res):
    if res.get("harness_error"):
        return [{"class": "HARNESS", "detail": res["harness_error"]}]
    v = []
    _, hmodel = collect_evals(sc)
    for ti, (ops, results) in enumerate(zip(sc["tasks"], res["tasks"])):
        if len(results) != len(ops):
            return [{"class": "HARNESS", "detail": "task %d produced %d results for %d ops" % (ti, len(results), len(ops))}]
        for oi, (op, r) in enumerate(zip(ops, results)):
            if r.get("skipped"):
                continue
            kind = op["op"]
            m = hmodel.get(op.get("h"))
            ref = refs[m] if m is not None else None
            if ref is not None and ref.get("build_error"):
                continue
            meta = sc["models"][m]["meta"] if m is not None else None
            if r.get("unexpected") and kind in ("build", "drop", "clock_jump"):
                v.append({"class": "C12/operation-failed/op=%s" % kind, "task": ti, "op": oi,
                          "detail": "%s raised %s(%s) although the same model builds in a pristine process" % (kind, r.get("exc"), r.get("msg"))})
                continue
            if kind == "eval":
                key = eval_key(op)
                e = ref["evals"].get(key)
                if e is None:
                    return [{"class": "HARNESS", "detail": "no reference for eval %s" % key}]
                if (e.get("bits"), e.get("exc"), e.get("f")) != (r.get("bits"), r.get("exc"), r.get("f")):
                    v.append({"class": "C12/evaluation-depends-on-history/what=%s/fn=%s" % (op["what"], (r.get("f") or "?").split(":")[0]),
                              "task": ti, "op": oi,
                              "detail": "%s(%s) of %s in this history = %s ; in a pristine process = %s" % (
                                  op["what"], e.get("x"), r.get("f"), r.get("bits") or r.get("exc"), e.get("bits") or e.get("exc"))})
            elif kind in ("write", "write_faulted"):
                w = ref["write"]
                target = {"Excel_PairTabulation": "excel(api)", "Excel_EAMTabulation": "excel_eam(api)",
                          "Excel_FinnisSinclair_EAMTabulation": "excel_eam_fs(api)"}.get(meta["target"], meta["target"])
                if kind == "write_faulted" and r.get("fired"):
                    if "exc" not in r:
                        v.append({"class": "C12/faulted-write-returned-normally/target=%s" % target, "task": ti, "op": oi,
                                  "detail": "evaluation %d failed but write() returned normally" % r.get("k", -1)})
                    continue
                if "exc" in r or "exc" in w:
                    if r.get("exc") != w.get("exc"):
                        v.append({"class": "C12/write-outcome-depends-on-history/target=%s" % target, "task": ti, "op": oi,
                                  "detail": "write() here: %s ; pristine process: %s" % (r.get("exc") or "ok", w.get("exc") or "ok")})
                    continue
                if r["sha"] == w["sha"]:
                    continue
                if meta["binary"] and r.get("norm") == w.get("norm") and r.get("clock_moved"):
                    v.append({"class": "C12/clock-dependent-bytes/target=%s" % target, "task": ti, "op": oi,
                              "detail": "xlsx bytes differ from the reference only in clock-derived fields (zip member times, dcterms:created/modified) after the clock moved"})
                    continue
                v.append({"class": "C12/output-depends-on-history/target=%s" % target, "task": ti, "op": oi,
                          "detail": "write() in this history emitted %d bytes sha %s ; pristine process %d bytes sha %s%s" % (
                              r["len"], r["sha"][:12], w["len"], w["sha"][:12],
                              "" if meta["binary"] else " ; here: %r / pristine: %r" % (_first_diff(r.get("head", ""), w.get("head", ""))))})
    return v


def _first_diff(a, b):
    for i, (x, y) in enumerate(zip(a, b)):
        if x != y:
            return a[max(0, i - 30):i + 50], b[max(0, i - 30):i + 50]
    return a[-60:], b[-60:]


# ----------------------------------------------------------------------------------------------
# jobs
# ----------------------------------------------------------------------------------------------

def run_references(sc, scratch):
    from .c17 import child
    per, _ = collect_evals(sc)
    refs = []
    for i, spec in enumerate(sc["models"]):
        evals = sorted(per[i].items())
        refs.append(child(execute_reference, {"model": spec, "evals": evals, "clock_start": sc["clock_start"]}, scratch))
    return refs


def prepare(sc, refs):
    """Fill in N (evaluations of a fault-free write) for write_faulted ops from the references."""
    sc = copy.deepcopy(sc)
    _, hmodel = collect_evals(sc)
    for ops in sc["tasks"]:
        for op in ops:
            if op["op"] == "write_faulted" and op["h"] in hmodel:
                op["N"] = max(1, (refs[hmodel[op["h"]]] or {}).get("n_evals") or 1)
    return sc


def run_scenario(sc, scratch, with_hashseeds=True):
    from .c17 import child
    refs = run_references(sc, scratch)
    for r in refs:
        if r.get("harness_error"):
            return refs, None, [{"class": "HARNESS", "detail": r["harness_error"]}], {}
    sc2 = prepare(sc, refs)
    res = child(execute, sc2, scratch)
    v = judge(sc2, refs, res)
    extra = {}
    if with_hashseeds and sc.get("hashseeds"):
        hv, hstats = run_hashseeds(sc, refs)
        v.extend(hv)
        extra.update(hstats)
    return refs, res, v, extra


def run_hashseeds(sc, refs):
    v = []
    stats = {"hashseed_processes": 0}
    seen = set()
    for i, spec in enumerate(sc["models"]):
        key = short(spec.get("sections") or {k: v for k, v in spec.items() if k != "meta"}, 12)
        if key in seen or refs[i].get("build_error"):
            continue
        seen.add(key)
        w = refs[i]["write"]
        sp = dict(spec)
        sp["_clock_start"] = sc["clock_start"]
        outs = {}
        for hs in sc["hashseeds"]:
            r = execute_hashseed(sp, hs)
            stats["hashseed_processes"] += 1
            if r.get("harness_error"):
                v.append({"class": "HARNESS", "detail": r["harness_error"]})
                continue
            outs[hs] = r
            if (r.get("sha"), r.get("exc")) != (w.get("sha"), w.get("exc")):
                cause = _hash_cause(spec, r, w)
                v.append({"class": "C12/hashseed-dependent-bytes/target=%s/cause=%s" % (spec["meta"]["target"], cause), "model": i,
                          "hashseed": hs,
                          "detail": "PYTHONHASHSEED=%s: %s ; PYTHONHASHSEED=0 reference: %s" % (
                              hs, r.get("exc") or ("%d bytes sha %s %r" % (r["len"], r["sha"][:12], _line4(r))),
                              w.get("exc") or ("%d bytes sha %s %r" % (w["len"], w["sha"][:12], _line4(w))))})
    return v, stats


def _line4(r):
    h = r.get("head") or ""
    lines = h.split("\n")
    return lines[3] if len(lines) > 3 else h[:60]


def _hash_cause(spec, r, w):
    if "sha" in r and "sha" in w and r.get("len") == w.get("len"):
        return "element-order"
    return "content"


def nontrivial(sc, res, extra):
    multi = len(sc["models"]) >= 2 or len(sc["tasks"]) >= 2
    if multi and res and res.get("switches_in_write", 0) >= 1:
        return True
    if sc.get("hashseeds") and extra.get("hashseed_processes", 0) >= 2:
        return True
    if res and res.get("excel_across_jump"):
        return True
    return False


def run_job(job):
    seed, tier, scratch = job["seed"], job["tier"], job["scratch"]
    st = {"runs": 0, "keys": [], "violations": [], "harness": [], "stats": {}, "samples": [], "evals": 0, "events": 0, "extra": {}}

    def bump(name, n=1):
        st["stats"][name] = st["stats"].get(name, 0) + n

    for sub in range(job.get("per_job", 4)):
        s = mix64(seed, "sub", sub) & 0x7FFFFFFFFFFF
        sc = gen_scenario(s, tier, mode=job.get("mode"))
        refs, res, v, extra = run_scenario(sc, scratch)
        st["runs"] += 1 + len(refs) + extra.get("hashseed_processes", 0)
        bump("scenarios")
        if res is None or res.get("harness_error"):
            st["harness"].append({"seed": s, "detail": (res or {}).get("harness_error") or [x["detail"] for x in v][:1]})
            continue
        if any(r.get("build_error") for r in refs):
            bump("scenarios-with-invalid-model")
        st["evals"] += res.get("evals_total", 0)
        st["events"] += res.get("n_events", 0)
        st.setdefault("evdigs", []).append(res.get("events_digest", "")[:16] + short([res.get("tasks"), refs], 8))
        st["extra"]["simulated_clock_seconds"] = st["extra"].get("simulated_clock_seconds", 0) + res.get("clock_advance", 0)
        st["extra"]["yield_points"] = st["extra"].get("yield_points", 0) + res.get("yields", 0)
        st["extra"]["task_switches"] = st["extra"].get("task_switches", 0) + res.get("switches", 0)
        st["extra"]["hashseed_processes"] = st["extra"].get("hashseed_processes", 0) + extra.get("hashseed_processes", 0)
        _probes(sc, refs, res, extra, bump)
        bump("state:%dmodels|%dtasks|sw%s|%s|%s" % (len(sc["models"]), len(sc["tasks"]), sc["switch_prob"],
                                                  "+".join(sorted(set(m["meta"]["target"] for m in sc["models"]))),
                                                  "hashseeds" if sc.get("hashseeds") else ("switch-in-write" if res.get("switches_in_write") else "sequential")))
        if nontrivial(sc, res, extra):
            st["keys"].append(short({"m": [m.get("sections") or {k: v for k, v in m.items() if k != "meta"} for m in sc["models"]], "t": sc["tasks"], "s": res.get("schedule"),
                                     "h": sc.get("hashseeds")}, 16))
            st["extra"].setdefault("distinct_schedules", []).append(short(res.get("schedule"), 12))
        for f in res.get("fired", []):
            bump("fired:" + f[3])
        for x in v:
            if x["class"] == "HARNESS":
                st["harness"].append({"seed": s, "detail": x["detail"]})
            else:
                sc_rec = copy.deepcopy(sc)
                sc_rec["schedule"] = res.get("schedule")
                st["violations"].append(dict(x, scenario=sc_rec))
        if not st["samples"] and res.get("switches_in_write"):
            st["samples"].append({"seed": s, "models": [{"tag": t, "target": m["meta"]["target"], "ini": (None if m.get("api") else mg.render_ini(m)),
                                              "api_model": ({k: v for k, v in m.items() if k != "meta"} if m.get("api") else None)} for t, m in zip(sc["model_tags"], sc["models"])],
                                  "shared_handles": sc["shared"], "tasks": sc["tasks"], "switch_prob": sc["switch_prob"],
                                  "schedule_prefix": (res.get("schedule") or [])[:60], "switches": res.get("switches"),
                                  "switches_inside_writes": res.get("switches_in_write"), "hashseeds": sc.get("hashseeds")})
    # keep schedule digests small
    ds = st["extra"].pop("distinct_schedules", [])
    st["sched_keys"] = ds
    return st


def _probes(sc, refs, res, extra, bump):
    if res.get("switches_in_write"):
        bump("probe:switch-inside-write")
    _, hmodel = collect_evals(sc)
    users = {}
    for ti, ops in enumerate(sc["tasks"]):
        for op in ops:
            if op.get("h"):
                users.setdefault(op["h"], set()).add(ti)
    if any(len(u) > 1 for u in users.values()):
        bump("probe:two-tasks-same-handle")
    res["excel_across_jump"] = False
    for ti, (ops, results) in enumerate(zip(sc["tasks"], res["tasks"])):
        faulted = set()
        written = {}
        built_models = []
        for op, r in zip(ops, results):
            k = op["op"]
            h = op.get("h")
            if k == "write_faulted" and r.get("fired"):
                faulted.add(h)
            if k == "write" and "sha" in r:
                if h in faulted:
                    bump("probe:write-after-faulted-write")
                written[h] = written.get(h, 0) + 1
                if written[h] == 2:
                    bump("probe:write-twice-same-handle")
                m = hmodel.get(h)
                if m is not None and sc["models"][m]["meta"]["binary"] and r.get("clock_moved"):
                    bump("probe:excel-write-across-clock-jump")
                    res["excel_across_jump"] = True
            if k == "clock_jump" and op["dt"] < 0:
                bump("probe:backwards-clock-jump")
            if k == "build":
                if op["m"] in built_models:
                    bump("probe:rebuild-same-model")
                built_models.append(op["m"])
    if extra.get("hashseed_processes"):
        bump("probe:hashseed-comparison")
        for m in sc["models"]:
            if m["meta"]["kind"] != "pair" and not m.get("api"):
                emb = [k for s in m["sections"] if s["name"] == "EAM-Embed" for k, _ in s["entries"]]
                den = set()
                for s in m["sections"]:
                    if s["name"] == "EAM-Density":
                        for k, _ in s["entries"]:
                            den.update(mg.species_of_key("EAM-Density", k))
                if len(den - set(emb)) >= 2:
                    bump("probe:underspecified-eam-under-hashseeds")
                    break
    for m in sc["models"]:
        if m.get("api"):
            bump("probe:python-api-model-in-pool")
            continue
        pf = mg.get_section(m, "Potential-Form")
        if pf:
            names = [e[0].split("(")[0] for e in pf["entries"]]
            for e in pf["entries"]:
                if any(e[1].count(n + "(") >= 2 for n in names):
                    bump("probe:shared-subform-different-args")
                    break
    for ti, ops in enumerate(sc["tasks"]):
        for op in ops:
            if op["op"] == "eval" and "bi" in op and op.get("eps") == 0.0 and op["h"] in hmodel and range_boundaries(sc["models"][hmodel[op["h"]]]):
                bump("probe:eval-exactly-at-range-boundary")
    if any(r.get("exc") and not r.get("unexpected") for results in res["tasks"] for r in results if isinstance(r, dict) and "f" in r):
        bump("probe:evaluation-fails-inside-library-code")
    for ops in sc["tasks"]:
        kinds = [o["op"] for o in ops]
        for i in range(len(kinds) - 3):
            if kinds[i] == "build" and "drop" in kinds[i + 1:i + 3] and "build" in kinds[i + 2:i + 4]:
                bump("probe:build-drop-churn")
                break
        if any(o["op"] == "eval" and o.get("own") and o.get("ri") == 0 and o.get("off") == 0.0 and "fl" in o for o in ops):
            bump("probe:structured-boundary-pattern")
    if "same-writer" in sc.get("model_tags", []):
        bump("probe:same-writer-different-species-counts")
    if "mirrored" in sc.get("model_tags", []):
        bump("probe:model-and-its-mirror-image-same-writer")
    if "other-helper" in sc.get("model_tags", []):
        bump("probe:identical-form-text-other-helper-in-pool")
    if any(op.get("own") and op.get("eps") == 0.0 for ops in sc["tasks"] for op in ops if op["op"] == "eval"):
        bump("probe:burst-of-evaluations-on-one-multi-range-function")
    if "same-names-other-formulas" in sc.get("model_tags", []):
        bump("probe:same-form-name-different-formula-in-pool")
    # evaluation of a handle's function between two rows of a write of the same handle by another task
    if res.get("switches_in_write") and any(len(u) > 1 for u in users.values()):
        bump("probe:eval-between-rows-of-own-write")


def jobs(seed, tier, n=None):
    from .core import run_seed
    total = n or (QUICK_JOBS if tier == "quick" else THOROUGH_JOBS)
    per = 4
    n_jobs = (total + per - 1) // per
    for i in range(n_jobs):
        yield {"seed": run_seed(seed, PROP, i), "tier": tier, "index": i, "per_job": per}
    # additional same-writer scenarios (10 % on top), appended so that the ordinary scenarios are unchanged
    for i in range(max(2, n_jobs // 10)):
        yield {"seed": run_seed(seed, PROP + "/same-writer", i), "tier": tier, "index": n_jobs + i, "per_job": per, "mode": "same-writer"}
    # additional mirrored scenarios (5 % on top), appended likewise
    n_sw = max(2, n_jobs // 10)
    for i in range(max(2, n_jobs // 20)):
        yield {"seed": run_seed(seed, PROP + "/mirrored", i), "tier": tier, "index": n_jobs + n_sw + i, "per_job": per, "mode": "mirrored"}


def replay(scenario, scratch):
    refs, res, v, extra = run_scenario(scenario, scratch)
    return v, (res or {}).get("events_digest")


# ----------------------------------------------------------------------------------------------
# minimisation
# ----------------------------------------------------------------------------------------------

def shrink_candidates(sc):
    # drop whole tasks
    if len(sc["tasks"]) > 1:
        for ti in range(len(sc["tasks"])):
            c = copy.deepcopy(sc)
            del c["tasks"][ti]
            c["shared"] = [dict(s, owner=(s["owner"] - 1 if s["owner"] > ti else (0 if s["owner"] == ti else s["owner"]))) for s in c["shared"]]
            c["schedule"] = None
            c["switch_prob"] = sc["switch_prob"] if len(c["tasks"]) > 1 else 0.0
            yield c
    if sc.get("hashseeds") and len(sc["hashseeds"]) > 2:
        c = copy.deepcopy(sc)
        c["hashseeds"] = sc["hashseeds"][:2]
        yield c
    # drop ops (chunks then singles)
    for ti, ops in enumerate(sc["tasks"]):
        n = len(ops)
        size = max(1, n // 2)
        while size >= 1:
            for start in range(0, n, size):
                c = copy.deepcopy(sc)
                del c["tasks"][ti][start:start + size]
                if not any(c["tasks"]):
                    continue
                c["schedule"] = None
                yield c
            if size == 1:
                break
            size //= 2
    # fewer shared handles
    for i in range(len(sc.get("shared", []))):
        c = copy.deepcopy(sc)
        h = c["shared"][i]["h"]
        del c["shared"][i]
        c["tasks"] = [[op for op in ops if op.get("h") != h] for ops in c["tasks"]]
        c["schedule"] = None
        if any(c["tasks"]):
            yield c
    # model simplification
    for mi, spec in enumerate(sc["models"]):
        if spec.get("api"):
            continue
        for si, s in enumerate(spec["sections"]):
            if s["name"] in mg.FUNCTION_SECTIONS:
                for ei in range(len(s["entries"])):
                    c = copy.deepcopy(sc)
                    del c["models"][mi]["sections"][si]["entries"][ei]
                    c["schedule"] = None
                    yield c
        for si, s in enumerate(spec["sections"]):
            if s["name"] in mg.FUNCTION_SECTIONS:
                for ei, (k, d) in enumerate(s["entries"]):
                    if d != "as.constant 1.0":
                        c = copy.deepcopy(sc)
                        c["models"][mi]["sections"][si]["entries"][ei][1] = "as.constant 1.0"
                        c["schedule"] = None
                        yield c
    if sc.get("schedule"):
        c = copy.deepcopy(sc)
        c["switch_prob"] = 0.0
        c["schedule"] = None
        yield c


def minimise(sc, vclass, scratch, budget_s=90.0, max_candidates=200):
    import time
    t0 = time.monotonic()
    tried = 0
    cur = copy.deepcopy(sc)
    improved = True
    while improved and tried < max_candidates and time.monotonic() - t0 < budget_s:
        improved = False
        for c in shrink_candidates(cur):
            if tried >= max_candidates or time.monotonic() - t0 > budget_s:
                break
            tried += 1
            refs, res, v, _ = run_scenario(c, scratch)
            if any(x["class"] == vclass for x in v):
                c["schedule"] = (res or {}).get("schedule")
                cur = c
                improved = True
                break
    return cur, tried


if __name__ == "__main__":
    if len(sys.argv) > 1 and sys.argv[1] == "hashseed-child":
        _hashseed_child_main()
