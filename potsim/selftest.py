"""Self-tests of the machinery itself.

  bin/check selftest-determinism   same VERIF_SEED twice, with 16 and 3 workers, and in a fresh
                                   interpreter under PYTHONHASHSEED=12345: batch digests must agree
  bin/check selftest-clock         the clock seam is complete: frozen virtual clock across a real
                                   sleep gives identical xlsx bytes, a virtual jump changes them
  bin/check selftest-mutants       every patch under mutants/<id>/ applied to a scratch copy of
                                   /repo must be reported by that property's quick check
"""
import json
import os
import shutil
import subprocess
import sys
import tempfile
import time

from . import core

JOBS = {"C17": 40, "C13": 240, "C14": 240, "C12": 96}


def _run_check(prop, extra_env, args, timeout=1800):
    env = dict(os.environ)
    env.update(extra_env)
    cmd = [sys.executable, "-W", "ignore", "-c", "import sys; from potsim.check import main; sys.exit(main(sys.argv[1:]))",
           prop, "--tier", "quick", "--no-evidence", "--no-minimise", "--print-digests"] + args
    p = subprocess.run(cmd, env=env, stdout=subprocess.PIPE, stderr=subprocess.STDOUT, timeout=timeout, cwd=core.VERIF_DIR)
    out = p.stdout.decode("utf-8", "replace")
    dg = None
    for line in out.splitlines():
        if line.startswith("BATCH-DIGEST "):
            dg = line.split()[1]
    return p.returncode, dg, out


def main(a):
    what = a.property
    if what == "selftest-determinism":
        return determinism(a)
    if what == "selftest-clock":
        return clock(a)
    if what == "selftest-mutants":
        return mutants(a)
    print("unknown selftest %s" % what)
    return 2


def determinism(a):
    props = os.environ.get("POTSIM_SELFTEST_PROPS", "C17,C13,C14,C12").split(",")
    bad = 0
    seeds = [int(x) for x in os.environ.get("POTSIM_SELFTEST_SEEDS", "1,2").split(",")]
    for prop in props:
        for seed in seeds:
            base_env = {"VERIF_SEED": str(seed), "PYTHONHASHSEED": "0"}
            jobs = ["--jobs", str(JOBS[prop])]
            runs = [
                ("workers=16", dict(base_env), jobs + ["--workers", "16"]),
                ("workers=16 again", dict(base_env), jobs + ["--workers", "16"]),
                ("workers=3", dict(base_env), jobs + ["--workers", "3"]),
                ("PYTHONHASHSEED=12345", dict(base_env, PYTHONHASHSEED="12345", POTSIM_KEEP_HASHSEED="1"), jobs + ["--workers", "16"]),
            ]
            digests = []
            for label, env, args in runs:
                rc, dg, out = _run_check(prop, env, args)
                digests.append(dg)
                print("%s seed=%d %-22s rc=%d digest=%s" % (prop, seed, label, rc, dg))
                sys.stdout.flush()
                if rc not in (0,):
                    print(out[-1500:])
                    bad += 1
            if len(set(digests)) != 1 or digests[0] is None:
                print("DETERMINISM FAILURE for %s seed %d: %r" % (prop, seed, digests))
                bad += 1
    print("selftest-determinism: %s" % ("FAILED" if bad else "ok"))
    return 2 if bad else 0


def clock(a):
    core.preload()
    import hashlib
    import io
    from .seams import SimClock
    from . import modelgen as mg
    import random
    from atsim.potentials.config import Configuration
    rng = random.Random(7)
    bad = 0
    for target in ("excel", "excel_eam", "excel_eam_fs"):
        spec = mg.gen_model(rng, {"targets": [target]})
        ini = mg.render_ini(spec)

        def once(jump):
            c = SimClock().install()
            c.advance(jump)
            try:
                tab = Configuration().read(io.StringIO(ini))
                fp = io.BytesIO()
                tab.write(fp)
            finally:
                c.uninstall()
            return hashlib.sha256(fp.getvalue()).hexdigest()
        a1 = once(0)
        time.sleep(2.2)
        a2 = once(0)
        a3 = once(2.0)
        ok = (a1 == a2) and (a1 != a3)
        print("clock seam %-13s frozen-across-real-sleep-identical=%s virtual-jump-changes-bytes=%s" % (target, a1 == a2, a1 != a3))
        if not ok:
            bad += 1
    print("selftest-clock: %s" % ("FAILED" if bad else "ok"))
    return 2 if bad else 0


def mutants(a):
    """Apply each mutants/<prop>/*.patch (and seeded/<id>/patch.diff) to a scratch copy of /repo and
    run the property's quick check against it through POTSIM_REPO; expect exit 1."""
    root = core.VERIF_DIR
    only = os.environ.get("POTSIM_MUTANT_FILTER")
    items = []
    for prop in sorted(os.listdir(os.path.join(root, "mutants"))) if os.path.isdir(os.path.join(root, "mutants")) else []:
        d = os.path.join(root, "mutants", prop)
        if not os.path.isdir(d):
            continue
        for f in sorted(os.listdir(d)):
            if f.endswith(".patch"):
                items.append((prop, os.path.join(d, f), "mutants/%s/%s" % (prop, f)))
    bd = os.path.join(root, "mutants-benign")
    for prop in sorted(os.listdir(bd)) if os.path.isdir(bd) else []:
        d = os.path.join(bd, prop)
        for f in sorted(os.listdir(d)) if os.path.isdir(d) else []:
            if f.endswith(".patch"):
                items.append((prop, os.path.join(d, f), "mutants-benign/%s/%s" % (prop, f)))
    sd = os.path.join(root, "seeded")
    if os.path.isdir(sd):
        for name in sorted(os.listdir(sd)):
            mp = os.path.join(sd, name, "meta.json")
            pp = os.path.join(sd, name, "patch.diff")
            if os.path.exists(mp) and os.path.exists(pp):
                meta = json.load(open(mp))
                items.append((meta["property"], pp, "seeded/%s" % name))
    if only:
        items = [x for x in items if only in x[2]]
    base = "/dev/shm" if os.path.isdir("/dev/shm") else tempfile.gettempdir()
    results = []
    tier = os.environ.get("POTSIM_MUTANT_TIER", "quick")
    for prop, patch, label in items:
        scratch = tempfile.mkdtemp(prefix="potsim-mutant-", dir=base)
        try:
            dst = os.path.join(scratch, "repo")
            subprocess.run(["git", "-C", "/repo", "worktree", "add", "--detach", "-f", dst, "HEAD"], check=True,
                           stdout=subprocess.DEVNULL, stderr=subprocess.DEVNULL)
            # include uncommitted changes of /repo's working tree, then the mutant
            diff = subprocess.run(["git", "-C", "/repo", "diff", "HEAD"], stdout=subprocess.PIPE).stdout
            if diff.strip():
                subprocess.run(["git", "-C", dst, "apply"], input=diff, check=True)
            r = subprocess.run(["git", "-C", dst, "apply", "--whitespace=nowarn", patch], stdout=subprocess.PIPE, stderr=subprocess.STDOUT)
            if r.returncode != 0:
                results.append((label, prop, "PATCH-DOES-NOT-APPLY", r.stdout.decode()[-300:]))
                continue
            seeds = [x for x in os.environ.get("POTSIM_MUTANT_SEEDS", "").split(",") if x] or [None]
            verdicts = []
            detail = ""
            t0 = time.time()
            for sd in seeds:
                env = dict(os.environ)
                env["POTSIM_REPO"] = dst
                env["PYTHONHASHSEED"] = "0"
                env.setdefault("POTSIM_MINIMISE_CLASSES", "1" if len(seeds) == 1 else "0")
                env.setdefault("POTSIM_MINIMISE_BUDGET", "30")
                if sd is not None:
                    env["VERIF_SEED"] = sd
                cmd = [sys.executable, "-W", "ignore", "-c", "import sys; from potsim.check import main; sys.exit(main(sys.argv[1:]))",
                       prop, "--tier", tier, "--no-evidence"]
                p = subprocess.run(cmd, env=env, stdout=subprocess.PIPE, stderr=subprocess.STDOUT, cwd=root, timeout=3600)
                out = p.stdout.decode("utf-8", "replace")
                vio = [l for l in out.splitlines() if l.startswith("violation class:")]
                v1 = "CAUGHT" if p.returncode == 1 and vio else ("MISSED" if p.returncode == 0 else "HARNESS(rc=%d)" % p.returncode)
                verdicts.append(v1)
                if vio and not detail:
                    detail = "; ".join(v[len("violation class: "):][:110] for v in vio[:3])
                if not vio and not detail:
                    detail = out[-300:].replace("\n", " | ")
            if all(v == "CAUGHT" for v in verdicts):
                verdict = "CAUGHT" if len(verdicts) == 1 else "CAUGHT(%d/%d seeds)" % (len(verdicts), len(verdicts))
            elif any(v.startswith("HARNESS") for v in verdicts):
                verdict = "HARNESS"
            elif any(v == "CAUGHT" for v in verdicts):
                verdict = "FLAKY(%d/%d seeds)" % (sum(1 for v in verdicts if v == "CAUGHT"), len(verdicts))
            else:
                verdict = "MISSED"
            if label.startswith("mutants-benign/"):
                verdict = {"MISSED": "NOT-FLAGGED(ok)"}.get(verdict, "FALSE-ALARM(" + verdict + ")")
            results.append((label, prop, verdict, detail))
            print("%-60s %-4s %-18s %5.0fs %s" % (label, prop, verdict, time.time() - t0, detail[:200]))
            sys.stdout.flush()
        finally:
            subprocess.run(["git", "-C", "/repo", "worktree", "remove", "--force", os.path.join(scratch, "repo")],
                           stdout=subprocess.DEVNULL, stderr=subprocess.DEVNULL)
            shutil.rmtree(scratch, ignore_errors=True)
            subprocess.run(["git", "-C", "/repo", "worktree", "prune"], stdout=subprocess.DEVNULL, stderr=subprocess.DEVNULL)
    caught = sum(1 for r in results if r[2].startswith("CAUGHT") or r[2].startswith("NOT-FLAGGED"))
    print("selftest-mutants: %d/%d caught (tier %s)" % (caught, len(results), tier))
    suffix = tier if len(os.environ.get("POTSIM_MUTANT_SEEDS", "").split(",")) < 2 else tier + "-multiseed"
    path = os.path.join(root, "mutants", "RESULTS-%s.json" % suffix)
    new = [{"mutant": r[0], "property": r[1], "verdict": r[2], "detail": r[3]} for r in results]
    if only and os.path.exists(path):
        # a filtered run refreshes only its own entries
        old = [x for x in json.load(open(path)) if x["mutant"] not in set(n["mutant"] for n in new)]
        new = sorted(old + new, key=lambda x: x["mutant"])
    with open(path, "w") as f:
        json.dump(new, f, indent=1)
    return 0 if caught == len(results) else 1
