"""Small deterministic helpers: integer mixing, canonical JSON, digests."""
import hashlib
import json
import struct

MASK64 = (1 << 64) - 1


def mix64(*parts):
    """Deterministic 64-bit mix of ints / strings (never uses Python hash())."""
    h = hashlib.sha256()
    for p in parts:
        if isinstance(p, int):
            h.update(b"i" + str(p).encode())
        else:
            h.update(b"s" + str(p).encode("utf-8"))
        h.update(b"\0")
    return int.from_bytes(h.digest()[:8], "big")


def cjson(obj):
    """Canonical JSON (sorted keys, no whitespace)."""
    return json.dumps(obj, sort_keys=True, separators=(",", ":"), ensure_ascii=True, default=_default)


def _default(o):
    if isinstance(o, (bytes, bytearray)):
        return {"__bytes_sha256__": hashlib.sha256(bytes(o)).hexdigest(), "len": len(o)}
    if isinstance(o, (set, frozenset)):
        return sorted(o)
    if isinstance(o, tuple):
        return list(o)
    raise TypeError("not JSON serialisable: %r" % (type(o),))


def digest(obj):
    return hashlib.sha256(cjson(obj).encode()).hexdigest()


def short(obj, n=12):
    return digest(obj)[:n]


def sha(b):
    if isinstance(b, str):
        b = b.encode("utf-8")
    return hashlib.sha256(b).hexdigest()


def float_bits(x):
    """IEEE-754 bit pattern of a float as hex string (exact comparison, NaN-safe)."""
    try:
        return struct.pack(">d", float(x)).hex()
    except (TypeError, ValueError, OverflowError):
        return "nonfloat:" + repr(x)


def fmt_num(x):
    """Render a float for .ini text: short repr, never exponent forms cexprtk/pyparsing dislike."""
    if isinstance(x, int):
        return str(x)
    s = repr(round(float(x), 6))
    if "e" in s or "E" in s:
        s = "%.6f" % float(x)
    return s
