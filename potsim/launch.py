"""Subprocess entry points that resolve atsim.potentials to POTSIM_REPO (default /repo) first.

    python -m potsim.launch potable ARGS...      run the real potable main()
"""
import sys


def main():
    from potsim.core import point_atsim_at_repo
    point_atsim_at_repo()
    what = sys.argv[1]
    if what == "potable":
        sys.argv = ["potable"] + sys.argv[2:]
        from atsim.potentials.tools.potable import main as potable_main
        potable_main()
    else:
        raise SystemExit("unknown launch target %r" % what)


if __name__ == "__main__":
    main()
