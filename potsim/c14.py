"""C14 - --override-item / --add-item / --remove-item equal editing the file by hand.

Seeded sequences of override / remove / add operations (Python API and potable command line) are
applied to the real parser and, independently, to a small reference model of the INI file
(IniModel: ordered sections of ordered, key-normalised entries).  The edited model is rendered
back to text and parsed/tabulated in a reference child; outcomes must agree.  No fault kind is in
the statement, none is injected.
"""
import copy
import io
import os
import random
import re
import sys

from . import modelgen as mg
from .util import sha, short, mix64, fmt_num

PROP = "C14"
LEVEL = "exploration"
QUICK_JOBS = 2400
THOROUGH_JOBS = 100000
WALL_CAP = {"quick": 240.0, "thorough": 3300.0}
STATE_MEASURE = "distinct (route, action, set of operation kinds, set of sections edited, outcome class of the reference model) combinations"

RULE = ("one case = (generated model, sequence of 1-8 override/remove/add operations on any section and key - repeated keys, "
        "whitespace variants of existing keys, missing keys/sections, items removed or added earlier in the same sequence, items that "
        "other items refer to through ${SECTION:KEY} placeholders, target changes, removal of a section's last key, values "
        "containing '=' and ':' - applied through ConfigParser(overrides=, additional=) in list order or spread over several "
        "potable -e/-r/-a options, followed by a tabulation or a --list-items/--list-item-labels/--item-value query) compared "
        "with the same edits applied by hand to the INI text (reference model) and parsed in a reference child. "
        "non-trivial = at least two edit operations touch the same section, or the reference model rejects an operation, or a "
        "whitespace-variant key is used; distinct = digest of (model, operation sequence, route, action).")
ASSUMPTIONS = [
    "'by hand' = IniModel semantics: override replaces the value of an existing key in place, remove deletes an existing entry, add appends a new key (creating the section at the end if missing); key identity is the documented normalisation (blanks and tabs removed, outer whitespace stripped)",
    "where the hand edit is ambiguous (removing the last key of a section: header kept or deleted) both renditions are accepted",
    "on the command line the reference applies all overrides (later wins), then removals, then additions, as the tool's structure documents; sequences whose meaning would depend on an undocumented cross-kind order for one key are generated only on the API route",
    "models contain no [Variables] section (its interaction with other sections is C15)",
    "no fault is injected: the statement contains none",
]
COMPONENTS = {
    "real": ["atsim.potentials.config.ConfigParser (incl. _ConfigParserDict/_RawConfigParser)", "Configuration and all builders/writers", "potable main(), _make_config_parser, _query_actions", "configparser", "cexprtk", "pyparsing", "openpyxl"],
    "simulated": ["edit-operation history (seeded)", "output file in tmpfs scratch", "clock seen by zipfile/openpyxl (frozen)", "sys.argv/stdout/stderr of potable"],
    "stubbed": [],
}
EXPECTED_PROBES = ["edit-of-item-removed-earlier", "same-item-added-twice", "whitespace-variant-key", "same-key-overridden-twice", "model-rejects-operation", "last-key-of-section-removed",
                   "add-creates-section", "target-changed-by-override", "remove-then-add-same-key", "value-contains-delimiter",
                   "cli-several-options-of-one-kind", "multi-line-value", "query-list-items", "query-item-value", "table-form-section-edited",
                   "second-parser-after-edits"]


def norm_key(k):
    return k.strip().replace(" ", "").replace("\t", "")


# ----------------------------------------------------------------------------------------------
# reference model
# ----------------------------------------------------------------------------------------------

class Rejected(Exception):
    pass


class IniModel(object):
    def __init__(self, spec):
        self.sections = [[s["name"], [[norm_key(k), k, v] for k, v in s["entries"]]] for s in spec["sections"]]
        self.emptied = []
        self.recreated = []      # sections emptied by removals and populated again by a later addition

    def _sec(self, name):
        for s in self.sections:
            if s[0] == name:
                return s
        return None

    def _find(self, sec, key):
        nk = norm_key(key)
        for i, e in enumerate(sec[1]):
            if e[0] == nk:
                return i
        return -1

    def override(self, section, key, value):
        s = self._sec(section)
        if s is None or self._find(s, key) < 0:
            raise Rejected("override of missing item %s:%s" % (section, key))
        s[1][self._find(s, key)][2] = value

    def remove(self, section, key):
        s = self._sec(section)
        if s is None or self._find(s, key) < 0:
            raise Rejected("removal of missing item %s:%s" % (section, key))
        del s[1][self._find(s, key)]
        if not s[1]:
            self.emptied.append(section)

    def add(self, section, key, value):
        s = self._sec(section)
        if s is not None and self._find(s, key) >= 0:
            raise Rejected("addition of existing item %s:%s" % (section, key))
        if s is None:
            s = [section, []]
            self.sections.append(s)
        if section in self.emptied:
            self.emptied.remove(section)
            if section not in self.recreated:
                self.recreated.append(section)
        s[1].append([norm_key(key), key, value])

    _PLACEHOLDER = re.compile(r"\$\{([^:{}]+):([^{}]+)\}")

    def lookup(self, section, key):
        s = self._sec(section)
        if s is None:
            return None
        i = self._find(s, key)
        return None if i < 0 else s[1][i][2]

    def resolve(self, value, depth=0):
        """Value with ${SECTION:KEY} placeholders replaced by the (edited) values they name; None if a
        placeholder cannot be resolved (the hand-edited file is then broken in the same way)."""
        if depth > 8:
            return None
        bad = []

        def rep(m):
            v = self.lookup(m.group(1), m.group(2))
            if v is None:
                bad.append(m.group(0))
                return ""
            r = self.resolve(v, depth + 1)
            if r is None:
                bad.append(m.group(0))
                return ""
            return r
        out = self._PLACEHOLDER.sub(rep, value)
        return None if bad else out

    def items(self):
        out = []
        for name, ents in self.sections:
            for nk, k, v in ents:
                out.append((name, nk, self.resolve(v)))
        return out

    def render(self, keep_empty_headers=True):
        """keep_empty_headers=True: a section whose last key was removed keeps its header where it was.
        False: its header is deleted too; if keys are added to it later it is a new section at the end."""
        spec = {"sections": []}
        order = list(self.sections)
        if not keep_empty_headers:
            moved = [s for s in order if s[0] in self.recreated]
            moved.sort(key=lambda s: self.recreated.index(s[0]))
            order = [s for s in order if s[0] not in self.recreated] + moved
        for name, ents in order:
            if not ents and not keep_empty_headers and name in self.emptied:
                continue
            # outer whitespace of a key is not part of a hand edit (leading blanks would turn the line
            # into a continuation of the previous value); inner whitespace is kept as the user typed it
            spec["sections"].append({"name": name, "entries": [[k.strip(), v] for nk, k, v in ents]})
        return mg.render_ini(spec)


def apply_reference(spec, ops, route):
    """Returns (IniModel or None, rejected_reason or None)."""
    m = IniModel(spec)
    try:
        if route == "cli":
            seq = [o for o in ops if o["kind"] == "override"] + [o for o in ops if o["kind"] == "remove"] + \
                  [o for o in ops if o["kind"] == "add"]
        else:
            seq = [o for o in ops if o["kind"] in ("override", "remove")] + [o for o in ops if o["kind"] == "add"]
        for o in seq:
            if o["kind"] == "override":
                m.override(o["section"], o["key"], o["value"])
            elif o["kind"] == "remove":
                m.remove(o["section"], o["key"])
            else:
                m.add(o["section"], o["key"], o["value"])
    except Rejected as r:
        return None, str(r)
    return m, None


# ----------------------------------------------------------------------------------------------
# scenario generation
# ----------------------------------------------------------------------------------------------

def ws_variant(rng, key):
    """A differently spaced spelling of a key."""
    out = []
    for ch in key:
        if ch in "-,(>" and rng.random() < 0.6:
            out.append(rng.choice([" ", "  ", "\t"]) + ch + rng.choice(["", " "]))
        else:
            out.append(ch)
    s = "".join(out)
    if rng.random() < 0.3:
        s = " " + s
    if rng.random() < 0.3:
        s = s + " "
    if norm_key(s) == key and s == key:
        s = key.replace("-", " - ") if "-" in key else key + " "
    return s


def gen_value(rng, spec, section, key, ctx):
    meta = spec["meta"]
    if section == "Tabulation":
        k = norm_key(key)
        if k == "target":
            kind = meta["kind"]
            same = {"pair": mg.PAIR_TARGETS + ["DL_POLY"], "eam": mg.EAM_TARGETS + ["lammps_eam_alloy"],
                    "fs": mg.FS_TARGETS, "adp": mg.ADP_TARGETS + mg.EAM_TARGETS}[kind]
            if rng.random() < 0.85:
                return rng.choice(same)
            return rng.choice(mg.ALL_TARGETS + ["nonsense"])
        if k in ("nr", "nrho"):
            return str(rng.choice([4, 5, 6, 8, 9, 12, 16]))
        if k in ("cutoff", "cutoff_rho"):
            return fmt_num(rng.choice([2.0, 3.0, 4.5, 6.0]))
        if k in ("dr", "drho"):
            return fmt_num(rng.choice([0.25, 0.5, 0.2]))
        return "1.0"
    if section in mg.FUNCTION_SECTIONS:
        return mg.gen_def(rng, ctx, embed=(section == "EAM-Embed"))
    if section == "Potential-Form":
        d = {"r": "r", "p0": "A", "p1": "B", "p2": "C"}
        # an alternative formula over the same signature (parameters taken from the key)
        try:
            params = [p.strip() for p in key[key.index("(") + 1:key.rindex(")")].split(",")]
        except ValueError:
            params = ["r"]
        var = params[0]
        ps = params[1:]
        terms = ["%s*%s" % (fmt_num(round(rng.uniform(0.1, 2), 3)), p) for p in ps] or ["1.0"]
        expr = "(%s)*exp(-%s*%s)" % (" + ".join(terms), fmt_num(round(rng.uniform(0.1, 1.5), 3)), var)
        if rng.random() < 0.3:
            expr += " + if(%s == 0.5, 1 , 0)" % var   # contains '=' : value delimiter handling
        return expr
    if section == "Species":
        k = norm_key(key)
        if k.endswith("atomic_number"):
            return str(rng.randint(1, 100))
        if k.endswith("lattice_type"):
            return rng.choice(["bcc", "fcc", "hcp", "sc"])
        return fmt_num(round(rng.uniform(1, 200), 3))
    if section.startswith("Table-Form"):
        return None   # filled by caller (needs the existing value)
    return "1.0"


def gen_ops(rng, spec, route):
    sections = {s["name"]: s for s in spec["sections"]}
    names = [s["name"] for s in spec["sections"]]
    meta = spec["meta"]
    ctx = {"cutoff": meta["cutoff"], "cutoff_rho": meta["cutoff_rho"] or 1.0, "forms": [], "tables": []}
    # builtin-only definitions keep overrides independent of [Potential-Form] edits
    n = rng.randint(1, 8)
    ops = []
    model = IniModel(spec)
    removed_keys = []
    cli_overridden = {}
    cli_removed = set()
    focus = rng.choice(names)
    for _ in range(n):
        r = rng.random()
        sec_name = focus if rng.random() < 0.6 else rng.choice(names)
        sec = model._sec(sec_name)
        existing = [e for e in (sec[1] if sec else [])]
        if r < 0.45:
            kind = "override"
        elif r < 0.7:
            kind = "remove"
        else:
            kind = "add"
        q = rng.random()
        if kind in ("override", "remove"):
            if removed_keys and rng.random() < 0.12:
                # an item removed earlier in this sequence: by hand it no longer exists
                sec_name, nk = rng.choice(removed_keys)
                key = nk if rng.random() < 0.5 else ws_variant(rng, nk)
                v0 = None
            elif existing and q < 0.93:
                nk, k0, v0 = rng.choice(existing)
                key = k0 if rng.random() < 0.6 else ws_variant(rng, nk)
            elif q < 0.97:
                key = rng.choice(["Zz-Zz", "nonexistent", "q(r,A)", "Xx"])
                nk, v0 = norm_key(key), None
            else:
                sec_name = rng.choice(["Nonexistent", "pair", "Table-Form:none", "EAM-Embed", "Species"])
                key = "A-A"
                nk, v0 = "A-A", None
            if route == "cli":
                ident = (sec_name, nk)
                if kind == "remove":
                    if ident in cli_removed and key in [o["key"] for o in ops if o["kind"] == "remove" and o["section"] == sec_name]:
                        continue     # identical duplicate removal: the tool de-duplicates, the meaning is ambiguous
                    cli_removed.add(ident)
                else:
                    if ident in cli_removed:
                        continue     # an override after the removal of the same key: cross-kind order is not documented
                    cli_overridden.setdefault(ident, set()).add(key)
            if kind == "override":
                if sec_name.startswith("Table-Form") and v0 is not None:
                    value = _perturb_table_value(rng, nk, v0)
                else:
                    value = gen_value(rng, spec, sec_name, key, ctx) or "1.0"
                ops.append({"kind": "override", "section": sec_name, "key": key, "value": value})
                try:
                    model.override(sec_name, key, value)
                except Rejected:
                    pass
            else:
                ops.append({"kind": "remove", "section": sec_name, "key": key})
                try:
                    model.remove(sec_name, key)
                    removed_keys.append((sec_name, nk))
                except Rejected:
                    pass
        else:
            # additions are applied after all overrides/removals: generate against the current model
            added = [(o["section"], norm_key(o["key"])) for o in ops if o["kind"] == "add"]
            if added and rng.random() < 0.1:
                # the same new item added a second time: the second addition must be rejected
                sec_name, nk = rng.choice(added)
                key = nk if rng.random() < 0.5 else ws_variant(rng, nk)
            elif q < 0.25 and removed_keys:
                sec_name, nk = rng.choice(removed_keys)
                key = nk if rng.random() < 0.6 else ws_variant(rng, nk)
            elif 0.25 <= q < 0.33 and existing:
                nk, k0, v0 = rng.choice(existing)      # duplicate: must be rejected
                key = k0 if rng.random() < 0.4 else ws_variant(rng, nk)
            elif q < 0.45:
                sec_name = rng.choice(["Species", "Pair", "EAM-Embed", "EAM-Density", "Notes", "Tabulation"])
                key = _new_key(rng, spec, sec_name)
            else:
                key = _new_key(rng, spec, sec_name)
            if sec_name.startswith("Table-Form"):
                value = "cubic_spline"
                key = rng.choice(["interpolation", "comment"])
            else:
                value = gen_value(rng, spec, sec_name, key, ctx) or "1.0"
            ops.append({"kind": "add", "section": sec_name, "key": key, "value": value})
    return ops


def _perturb_table_value(rng, nk, v0):
    if nk == "interpolation":
        return rng.choice(["cubic_spline", "cubic_spline", "nonsense"])
    vals = v0.split()
    if nk == "x":
        return v0
    step = 2 if nk == "xy" else 1
    start = 1 if nk == "xy" else 0
    for i in range(start, len(vals) - (2 if nk == "xy" else 1), step):
        vals[i] = fmt_num(round(float(vals[i]) * rng.uniform(0.5, 1.5), 4))
    return " ".join(vals)


def _new_key(rng, spec, sec_name):
    sp = spec["meta"]["species"] + ["He", "Xa"]
    if sec_name in ("Pair", "EAM-ADP-Dipole", "EAM-ADP-Quadrupole"):
        a, b = rng.choice(sp), rng.choice(sp)
        return rng.choice(["%s-%s", "%s - %s", "%s -%s"]) % (a, b)
    if sec_name == "EAM-Embed":
        return rng.choice(sp)
    if sec_name == "EAM-Density":
        if spec["meta"]["kind"] == "fs":
            return rng.choice(["%s->%s", "%s -> %s"]) % (rng.choice(sp), rng.choice(sp))
        return rng.choice(sp)
    if sec_name == "Species":
        return "%s.%s" % (rng.choice(sp), rng.choice(["atomic_mass", "atomic_number", "lattice_type", "lattice_constant", "charge"]))
    if sec_name == "Tabulation":
        return rng.choice(["nr", "dr", "cutoff", "nrho", "drho", "cutoff_rho", "target", "comment"])
    if sec_name == "Potential-Form":
        return rng.choice(["newf%d(r, A, B)" % rng.randint(0, 9), "newf(r,A)"])
    return rng.choice(["note", "author", "a b"])


def _multiline_values(ops, seed):
    """A quarter of the override/add values of function, form and table sections are spread over two or three lines
    (in the hand-edited file: indented continuation lines; on the command line and in the API: embedded newlines).
    Drawn from a side stream so that everything else about the scenario is as before."""
    rng = random.Random(mix64(seed, "c14-multiline"))
    for o in ops:
        v = o.get("value")
        sec = o["section"]
        if not v or not (sec in mg.FUNCTION_SECTIONS or sec == "Potential-Form" or sec.startswith("Table-Form:")):
            continue
        if rng.random() >= 0.25:
            continue
        cut = [i for i, ch in enumerate(v) if ch == " " and 0 < i < len(v) - 1 and v[i - 1] not in " \n" and v[i + 1] not in " \n#;"]
        if not cut:
            continue
        for i in sorted(rng.sample(cut, min(len(cut), rng.randint(1, 2)))):
            v = v[:i] + "\n" + v[i + 1:]
        o["value"] = v
        o["multiline"] = True


def gen_scenario(seed, tier="quick"):
    rng = random.Random(seed)
    spec = mg.gen_model(rng, {"nr_max": 10, "nrho_max": 5, "max_species": 3, "tables_prob": 0.25, "synonym_prob": 0.15,
                              "placeholders_prob": 0.3})
    route = "cli" if rng.random() < 0.5 else "api"
    ops = gen_ops(rng, spec, route)
    _multiline_values(ops, seed)
    if route == "cli":
        action = rng.choice(["tabulate", "tabulate", "tabulate", "list-items", "list-item-labels", "item-value"])
    else:
        action = rng.choice(["tabulate", "tabulate", "tabulate", "items"])
    sc = {"property": PROP, "seed": seed, "tier": tier, "potsim": 1, "model": spec, "route": route, "ops": ops,
          "action": action, "second_parser": rng.random() < 0.4, "cli_layout_seed": rng.randrange(1 << 30)}
    if action == "item-value":
        m, _ = apply_reference(spec, ops, route)
        items = (m.items() if m else IniModel(spec).items())
        if items:
            s, k, v = rng.choice(items)
            sc["query"] = {"section": s, "key": k if rng.random() < 0.7 else ws_variant(rng, k)}
        else:
            sc["action"] = "list-items"
    return sc


def cli_args(sc):
    """Spread the operations over several -e/-r/-a options in seeded command-line order."""
    rng = random.Random(sc["cli_layout_seed"])
    groups = []
    for kind, flag in (("override", rng.choice(["-e", "--override-item"])), ("remove", rng.choice(["-r", "--remove-item"])),
                       ("add", rng.choice(["-a", "--add-item"]))):
        items = [o for o in sc["ops"] if o["kind"] == kind]
        i = 0
        while i < len(items):
            n = rng.randint(1, 3)
            chunk = items[i:i + n]
            i += n
            vals = []
            for o in chunk:
                if kind == "remove":
                    vals.append("%s:%s" % (o["section"], o["key"]))
                else:
                    vals.append("%s:%s=%s" % (o["section"], o["key"], o["value"]))
            groups.append((kind, [flag] + vals))
    # keep relative order within a kind, interleave kinds at random
    order = []
    pools = {"override": [g for g in groups if g[0] == "override"], "remove": [g for g in groups if g[0] == "remove"],
             "add": [g for g in groups if g[0] == "add"]}
    while any(pools.values()):
        k = rng.choice([k for k in pools if pools[k]])
        order.append(pools[k].pop(0)[1])
    args = []
    for g in order:
        args += g
    return args


# ----------------------------------------------------------------------------------------------
# execution
# ----------------------------------------------------------------------------------------------

def _tabulate_text(ini, binary_hint=None):
    from atsim.potentials.config import Configuration, ConfigParser
    try:
        cp = ConfigParser(io.StringIO(ini))
        return _tabulate_cp(cp)
    except Exception as e:
        return _exc(e)


def _parse_text(ini):
    from atsim.potentials.config import ConfigParser
    try:
        ConfigParser(io.StringIO(ini))
        return {"ok": True}
    except Exception as e:
        return _exc(e)


def _query_text(sc, ini):
    """The same query, asked of the hand-edited file through potable itself (no edit options)."""
    import tempfile
    from atsim.potentials.tools import potable
    scratch = tempfile.mkdtemp(prefix="c14q-")
    in_path = os.path.join(scratch, "edited.aspot")
    with open(in_path, "w") as f:
        f.write(ini)
    argv = ["potable", in_path]
    if sc["action"] == "list-items":
        argv.append("--list-items")
    elif sc["action"] == "list-item-labels":
        argv.append("--list-item-labels")
    else:
        argv += ["--item-value", "%s:%s" % (sc["query"]["section"], sc["query"]["key"])]
    old = (sys.argv, sys.stdout, sys.stderr)
    sys.argv = argv
    sys.stdout = io.StringIO()
    sys.stderr = io.StringIO()
    rec = {"exit": None, "raised": None}
    try:
        potable.main()
        rec["exit"] = 0
    except SystemExit as e:
        rec["exit"] = e.code if isinstance(e.code, int) else (0 if e.code is None else 1)
    except Exception as e:
        rec["raised"] = type(e).__name__
    finally:
        rec["stdout"] = sys.stdout.getvalue()
        rec["cfg_error"] = "configuration error" in sys.stderr.getvalue()
        sys.argv, sys.stdout, sys.stderr = old
    return rec


def _tabulate_cp(cp):
    from atsim.potentials.config import Configuration
    try:
        tab = Configuration().read_from_parser(cp)
        binary = tab.target in ("excel", "excel_eam", "excel_eam_fs")
        fp = io.BytesIO() if binary else io.StringIO()
        tab.write(fp)
        b = fp.getvalue()
        if isinstance(b, str):
            b = b.encode("utf-8")
        return {"ok": True, "sha": sha(b), "len": len(b), "head": b[:100].decode("utf-8", "replace"), "target": tab.target}
    except Exception as e:
        return _exc(e)


def _exc(e):
    from atsim.potentials.config._common import ConfigurationException
    return {"ok": False, "exc": type(e).__name__, "cfg": isinstance(e, ConfigurationException), "msg": str(e)[:200]}


def _items_of_cp(cp):
    raw = cp.raw_config_parser
    out = []
    for s in raw.sections():
        for k in raw[s]:
            out.append([s, k, raw[s][k]])
    return out


def execute(sc, reference=False):
    from .core import point_atsim_at_repo
    point_atsim_at_repo()
    import logging
    import tempfile
    logging.disable(logging.CRITICAL)
    from .seams import SimClock
    clock = SimClock().install()
    spec = sc["model"]
    ini = mg.render_ini(spec)
    out = {}
    try:
        if reference:
            m, why = apply_reference(spec, sc["ops"], sc["route"])
            out["rejected"] = why
            out["unedited"] = _tabulate_text(ini)
            if m is None:
                return out
            out["items"] = [list(x) for x in m.items()]
            out["emptied"] = list(m.emptied)
            out["renditions"] = []
            texts = [m.render(True)]
            if m.emptied or m.recreated:
                texts.append(m.render(False))
            out["texts"] = texts
            out["parses"] = []
            out["queries"] = []
            for t in texts:
                out["renditions"].append(_tabulate_text(t))
                out["parses"].append(_parse_text(t))
                if sc["route"] == "cli" and sc["action"] != "tabulate":
                    out["queries"].append(_query_text(sc, t))
            return out
        if sc["route"] == "api":
            _exec_api(sc, ini, out)
        else:
            _exec_cli(sc, ini, out)
        if sc.get("second_parser"):
            out["second"] = _tabulate_text(ini)
    finally:
        clock.uninstall()
    return out


def _exec_api(sc, ini, out):
    from atsim.potentials.config import ConfigParser, ConfigParserOverrideTuple as T
    ov = []
    ad = []
    for o in sc["ops"]:
        if o["kind"] == "override":
            ov.append(T(o["section"], o["key"], o["value"]))
        elif o["kind"] == "remove":
            ov.append(T(o["section"], o["key"], None))
        else:
            ad.append(T(o["section"], o["key"], o["value"]))
    try:
        cp = ConfigParser(io.StringIO(ini), overrides=ov, additional=ad)
    except Exception as e:
        out["parse"] = _exc(e)
        return
    out["parse"] = {"ok": True}
    if sc["action"] == "items":
        try:
            out["items"] = _items_of_cp(cp)
        except Exception as e:
            out["items_error"] = "%s: %s" % (type(e).__name__, str(e)[:160])
    out["tab"] = _tabulate_cp(cp)


def _exec_cli(sc, ini, out):
    import tempfile
    from atsim.potentials.tools import potable
    scratch = tempfile.mkdtemp(prefix="c14-")
    in_path = os.path.join(scratch, "model.aspot")
    out_path = os.path.join(scratch, "table.out")
    with open(in_path, "w") as f:
        f.write(ini)
    argv = ["potable", in_path]
    action = sc["action"]
    if action == "tabulate":
        argv.append(out_path)
    argv += cli_args(sc)
    if action == "list-items":
        argv.append("--list-items")
    elif action == "list-item-labels":
        argv.append("--list-item-labels")
    elif action == "item-value":
        argv += ["--item-value", "%s:%s" % (sc["query"]["section"], sc["query"]["key"])]
    out["argv"] = [x for x in argv[2:] if x != out_path]     # (scratch paths are random: keep them out of the record)
    old = (sys.argv, sys.stdout, sys.stderr)
    sys.argv = argv
    sys.stdout = io.StringIO()
    sys.stderr = io.StringIO()
    rec = {"exit": None, "raised": None}
    try:
        potable.main()
        rec["exit"] = 0
    except SystemExit as e:
        rec["exit"] = e.code if isinstance(e.code, int) else (0 if e.code is None else 1)
    except Exception as e:
        rec["raised"] = type(e).__name__
        rec["msg"] = str(e)[:200]
    finally:
        rec["stdout"] = sys.stdout.getvalue()
        err = sys.stderr.getvalue()
        rec["cfg_error"] = "configuration error" in err
        rec["stderr"] = err[-300:]
        sys.argv, sys.stdout, sys.stderr = old
    if os.path.exists(out_path):
        with open(out_path, "rb") as f:
            b = f.read()
        rec["file"] = {"len": len(b), "sha": sha(b), "head": b[:100].decode("utf-8", "replace")}
    else:
        rec["file"] = None
    out["cli"] = rec
    if sc.get("second_parser"):
        # a later, plain invocation in the same process must not be affected by the edits above
        out2_path = os.path.join(scratch, "table2.out")
        old = (sys.argv, sys.stdout, sys.stderr)
        sys.argv = ["potable", in_path, out2_path]
        sys.stdout = io.StringIO()
        sys.stderr = io.StringIO()
        r2 = {"ok": False}
        try:
            potable.main()
        except SystemExit as e:
            code = e.code if isinstance(e.code, int) else (0 if e.code is None else 1)
            if code == 0 and os.path.exists(out2_path):
                with open(out2_path, "rb") as f:
                    b = f.read()
                r2 = {"ok": True, "sha": sha(b), "len": len(b), "head": b[:100].decode("utf-8", "replace")}
            else:
                r2 = {"ok": False, "exc": "SystemExit", "cfg": "configuration error" in sys.stderr.getvalue(), "msg": sys.stderr.getvalue()[-160:]}
        except Exception as e:
            r2 = _exc(e)
        finally:
            sys.argv, sys.stdout, sys.stderr = old
        out["second_cli"] = r2


# ----------------------------------------------------------------------------------------------
# oracle
# ----------------------------------------------------------------------------------------------

def op_features(sc):
    f = set()
    secs = {}
    seen = {}
    base_keys = {}
    for s in sc["model"]["sections"]:
        base_keys[s["name"]] = [k for k, _ in s["entries"]]
    for o in sc["ops"]:
        secs[o["section"]] = secs.get(o["section"], 0) + 1
        nk = norm_key(o["key"])
        if o["key"] != nk or (o["section"] in base_keys and o["key"] not in base_keys[o["section"]] and nk in [norm_key(x) for x in base_keys[o["section"]]]):
            if o["section"] in base_keys and nk in [norm_key(x) for x in base_keys[o["section"]]]:
                f.add("whitespace-variant-key")
        ident = (o["section"], nk)
        if o["kind"] == "override" and seen.get(ident) == "override":
            f.add("same-key-overridden-twice")
        if o["kind"] == "add" and seen.get(ident) == "remove":
            f.add("remove-then-add-same-key")
        if o["kind"] in ("override", "remove") and seen.get(ident) == "remove":
            f.add("edit-of-item-removed-earlier")
        if o["kind"] == "add" and seen.get(ident) == "add":
            f.add("same-item-added-twice")
        seen[ident] = o["kind"]
        if o["kind"] == "override" and o["section"] == "Tabulation" and nk == "target":
            f.add("target-changed-by-override")
        if o["kind"] == "add" and o["section"] not in base_keys:
            f.add("add-creates-section")
        if o.get("value") and ("=" in o["value"] or ":" in o["value"]):
            f.add("value-contains-delimiter")
        if o["section"].startswith("Table-Form:"):
            f.add("table-form-section-edited")
        if o.get("multiline"):
            f.add("multi-line-value")
    if any(v >= 2 for v in secs.values()):
        f.add("two-ops-same-section")
    return f


def judge(sc, ref, res):
    for x in (ref, res):
        if x.get("harness_error"):
            return [{"class": "HARNESS", "detail": x["harness_error"]}]
    v = []
    route = sc["route"]
    action = sc["action"]
    feats = op_features(sc)
    ws = "ws-variant" if "whitespace-variant-key" in feats else "plain-keys"
    tf = "/table-form" if "table-form-section-edited" in feats else ""
    rejected = ref.get("rejected")
    kinds = "+".join(sorted(set(o["kind"] for o in sc["ops"])))
    if route == "api":
        p = res.get("parse", {})
        if rejected:
            if p.get("ok"):
                v.append({"class": "C14/invalid-operation-accepted/route=api/%s/%s" % (_rej_kind(rejected), ws),
                          "detail": "reference model rejects (%s) but ConfigParser accepted the edits; tabulation: %s" % (rejected, _r(res.get("tab")))})
            elif not p.get("cfg"):
                v.append({"class": "C14/invalid-operation-not-a-configuration-error/route=api/%s" % _rej_kind(rejected),
                          "detail": "reference model rejects (%s); ConfigParser raised %s(%s)" % (rejected, p.get("exc"), p.get("msg"))})
        else:
            parses = ref.get("parses") or []
            if (not p.get("ok")) and p.get("cfg") and parses and all((not q["ok"]) and q.get("cfg") for q in parses):
                pass    # the hand-edited file is itself refused by the parser with a configuration error
            elif not p.get("ok"):
                v.append({"class": "C14/valid-operation-rejected/route=api/%s/%s%s" % (kinds, ws, tf),
                          "detail": "hand edit is well defined but ConfigParser raised %s(%s)" % (p.get("exc"), p.get("msg"))})
            else:
                _cmp_tab(v, "api", res.get("tab"), ref, ws, tf, sc)
                unresolvable = any(val is None for s_, k_, val in ref["items"])
                if action == "items" and res.get("items_error"):
                    if not unresolvable:
                        v.append({"class": "C14/items-read-failed/route=api/%s%s" % (ws, tf),
                                  "detail": "reading the items of the edited parser raised %s although every placeholder of the hand-edited file resolves" % res["items_error"]})
                elif action == "items" and not unresolvable:
                    want = sorted((s, k, val) for s, k, val in ref["items"])
                    got = sorted((s, k, val) for s, k, val in res.get("items", []))
                    if want != got:
                        v.append({"class": "C14/items-differ-from-hand-edited-file/route=api/%s%s" % (ws, tf),
                                  "detail": "raw items after edits %r != hand-edited %r" % (_diff(got, want), "")})
    else:
        c = res["cli"]
        failed = c["raised"] is not None or c["exit"] != 0
        if rejected:
            if not failed:
                v.append({"class": "C14/invalid-operation-accepted/route=cli/%s/%s" % (_rej_kind(rejected), ws),
                          "detail": "reference model rejects (%s) but potable %s exited 0" % (rejected, " ".join(res["cli"] and sc and res.get("argv", [])))})
            elif not c.get("cfg_error"):
                v.append({"class": "C14/invalid-operation-not-a-configuration-error/route=cli/%s" % _rej_kind(rejected),
                          "detail": "reference model rejects (%s); potable: %s" % (rejected, _cli(c))})
        else:
            if action == "tabulate":
                got = {"ok": not failed}
                if failed:
                    got.update({"exc": c["raised"] or "SystemExit", "cfg": bool(c.get("cfg_error")), "msg": c.get("msg") or c.get("stderr", "")[-160:]})
                else:
                    f = c["file"] or {}
                    got.update({"sha": f.get("sha"), "len": f.get("len"), "head": f.get("head")})
                _cmp_tab(v, "cli", got, ref, ws, tf, sc)
            else:
                parses = ref.get("parses") or []
                rq = ref.get("queries") or []
                same_failure = rq and all((q["raised"], q["exit"], bool(q.get("cfg_error"))) == (c["raised"], c["exit"], bool(c.get("cfg_error"))) for q in rq)
                if failed and c.get("cfg_error") and parses and all((not p["ok"]) and p.get("cfg") for p in parses):
                    pass    # the hand-edited file is itself refused by the parser with a configuration error
                elif failed and same_failure:
                    pass    # asking the hand-edited file the same question fails in exactly the same way (e.g. a placeholder naming a removed item)
                elif failed:
                    v.append({"class": "C14/query-failed/action=%s/%s%s" % (action, ws, tf),
                              "detail": "potable %s on a well-defined edit: %s" % (action, _cli(c))})
                else:
                    lines = [l for l in c["stdout"].split("\n") if l != ""]
                    if any(val is None for s_, k_, val in ref["items"]):
                        # an unresolvable placeholder somewhere: the independent model has no expectation, use the
                        # differential one (potable asked about the hand-edited file)
                        if rq and not any(sorted(l for l in q["stdout"].split("\n") if l != "") == sorted(lines) for q in rq if q["exit"] == 0):
                            v.append({"class": "C14/query-output-differs/action=%s/vs-hand-edited-file" % action,
                                      "detail": "potable %s printed %r; the same query on the hand-edited file printed %r" % (action, sorted(lines)[:6], [q["stdout"][:200] for q in rq])})
                        return v if not (sc.get("second_parser") and ("second" in res or "second_cli" in res)) else _second_checks(sc, ref, res, v, route)
                    if action == "list-items":
                        want = sorted("%s:%s=%s" % (s, k, val) for s, k, val in ref["items"])
                    elif action == "list-item-labels":
                        want = sorted("%s:%s" % (s, k) for s, k, val in ref["items"])
                    else:
                        q = sc["query"]
                        want = [val for s, k, val in ref["items"] if s == q["section"] and k == norm_key(q["key"])]
                    # a multi-line value is printed verbatim, i.e. over several lines
                    want = [l for w in want for l in w.split("\n") if l != ""]
                    if sorted(lines) != sorted(want):
                        kind = _list_diff_kind(lines, want)
                        v.append({"class": "C14/query-output-differs/action=%s/%s" % (action, kind),
                                  "detail": "potable %s printed %r; the edited file holds %r" % (action, _diff(sorted(lines), sorted(want)), "")})
    return _second_checks(sc, ref, res, v, route)


def _second_checks(sc, ref, res, v, route):
    if sc.get("second_parser") and "second_cli" in res:
        a, b = res["second_cli"], ref["unedited"]
        if (a.get("ok"), a.get("sha")) != (b.get("ok"), b.get("sha")) or (not a.get("ok") and bool(a.get("cfg")) != bool(b.get("cfg"))):
            v.append({"class": "C14/later-invocation-affected-by-edits/route=cli",
                      "detail": "a plain potable run afterwards in the same process gave %s; the unedited file gives %s" % (_r(a), _r(b))})
    if sc.get("second_parser") and "second" in res:
        a, b = res["second"], ref["unedited"]
        if (a.get("ok"), a.get("sha"), a.get("exc")) != (b.get("ok"), b.get("sha"), b.get("exc")):
            v.append({"class": "C14/later-parser-affected-by-edits/route=%s" % route,
                      "detail": "a ConfigParser built afterwards without overrides gave %s; the unedited file gives %s" % (_r(a), _r(b))})
    return v


def _list_diff_kind(lines, want):
    ws, ls = set(want), set(lines)
    missing = ws - ls
    extra = ls - ws
    if missing and all(m.startswith("Table-Form:") for m in missing) and not extra:
        return "missing-table-form-items"
    if missing and not extra:
        return "missing-items"
    if extra and not missing:
        return "extra-items"
    if not missing and not extra:
        return "duplicated-items"
    return "different-items"


def _diff(got, want):
    g, w = list(got), list(want)
    return {"only_in_output": [x for x in g if x not in w][:6], "only_in_edited_file": [x for x in w if x not in g][:6],
            "n_output": len(g), "n_edited_file": len(w)}


def _rej_kind(why):
    return why.split(" of ")[0].replace(" ", "-") + "-" + why.split(" of ")[1].split(" ")[0]


def _cmp_tab(v, route, got, ref, ws, tf, sc):
    rends = ref["renditions"]
    if got is None:
        v.append({"class": "HARNESS", "detail": "no tabulation result"})
        return
    for e in rends:
        if e["ok"] and got["ok"] and e["sha"] == got["sha"]:
            return
        if (not e["ok"]) and (not got["ok"]) and bool(e.get("cfg")) == bool(got.get("cfg")):
            return
    e = rends[0]
    target = e.get("target") or sc["model"]["meta"]["target"]
    if got["ok"] and all(x["ok"] for x in rends):
        cls = "C14/output-differs-from-hand-edited-file/route=%s/%s%s" % (route, ws, tf)
    elif got["ok"]:
        cls = "C14/tabulated-although-hand-edited-file-is-rejected/route=%s/%s%s" % (route, ws, tf)
    elif any(x["ok"] for x in rends):
        cls = "C14/failed-although-hand-edited-file-tabulates/route=%s/%s%s" % (route, ws, tf)
    else:
        cls = "C14/failure-kind-differs-from-hand-edited-file/route=%s%s" % (route, tf)
    v.append({"class": cls,
              "detail": "after edits %s: got %s ; hand-edited file (%d rendition(s)) gives %s" % (
                  [(o["kind"], o["section"], o["key"]) for o in sc["ops"]], _r(got), len(rends), " | ".join(_r(x) for x in rends))})


def _r(x):
    if x is None:
        return "None"
    if x.get("ok"):
        return "%s bytes sha %s %r" % (x.get("len"), (x.get("sha") or "")[:10], (x.get("head") or "")[:60])
    return "%s %s(%s)" % ("configuration error" if x.get("cfg") else "internal exception", x.get("exc"), (x.get("msg") or "")[:140])


def _cli(c):
    if c["raised"]:
        return "uncaught %s(%s)" % (c["raised"], c.get("msg"))
    return "exit %s, stderr ...%s" % (c["exit"], (c.get("stderr") or "")[-140:].strip())


# ----------------------------------------------------------------------------------------------
# jobs
# ----------------------------------------------------------------------------------------------

def _child_ref(sc):
    return execute(sc, reference=True)


def _child_run(sc):
    return execute(sc, reference=False)


def run_scenario(sc, scratch):
    from .c17 import child
    ref = child(_child_ref, sc, scratch)
    res = child(_child_run, sc, scratch)
    return ref, res, judge(sc, ref, res)


def nontrivial(sc, ref):
    f = op_features(sc)
    return bool(ref.get("rejected")) or "two-ops-same-section" in f or "whitespace-variant-key" in f


def run_job(job):
    seed, tier, scratch = job["seed"], job["tier"], job["scratch"]
    st = {"runs": 0, "keys": [], "violations": [], "harness": [], "stats": {}, "samples": [], "evals": 0, "events": 0}

    def bump(name, n=1):
        st["stats"][name] = st["stats"].get(name, 0) + n

    for sub in range(job.get("per_job", 8)):
        s = mix64(seed, "sub", sub) & 0x7FFFFFFFFFFF
        sc = gen_scenario(s, tier)
        ref, res, v = run_scenario(sc, scratch)
        st["runs"] += 1
        st["events"] += len(sc["ops"])
        st.setdefault("evdigs", []).append(short([ref, res], 20))
        bump("route=" + sc["route"])
        bump("action=" + sc["action"])
        if ref.get("harness_error") or res.get("harness_error"):
            st["harness"].append({"seed": s, "detail": ref.get("harness_error") or res.get("harness_error")})
            continue
        nt = nontrivial(sc, ref)
        if nt:
            st["keys"].append(short({"m": sc["model"]["sections"], "o": sc["ops"], "r": sc["route"], "a": sc["action"], "q": sc.get("query")}, 16))
        for f in op_features(sc):
            if f != "two-ops-same-section":
                bump("probe:" + f)
        bump("state:%s|%s|%s|%s|%s" % (sc["route"], sc["action"], "+".join(sorted(set(o["kind"] for o in sc["ops"]))),
                                     ",".join(sorted(set(o["section"].split(":")[0] for o in sc["ops"])))[:60],
                                     ("rejected:" + _rej_kind(ref["rejected"])) if ref.get("rejected") else "accepted"))
        if ref.get("rejected"):
            bump("probe:model-rejects-operation")
            bump("rejected:" + _rej_kind(ref["rejected"]))
        else:
            if ref.get("emptied"):
                bump("probe:last-key-of-section-removed")
            rends = ref.get("renditions") or []
            if rends and rends[0]["ok"]:
                bump("edited-file-tabulates")
            else:
                bump("edited-file-is-itself-rejected")
        if sc["route"] == "cli":
            flags = [a for a in res.get("argv", []) if a.startswith("-")]
            for fl in ("-e", "--override-item", "-r", "--remove-item", "-a", "--add-item"):
                if flags.count(fl) >= 2:
                    bump("probe:cli-several-options-of-one-kind")
                    break
            if sc["action"] in ("list-items", "list-item-labels"):
                bump("probe:query-list-items")
            if sc["action"] == "item-value":
                bump("probe:query-item-value")
        if sc.get("second_parser"):
            bump("probe:second-parser-after-edits")
        for x in v:
            if x["class"] == "HARNESS":
                st["harness"].append({"seed": s, "detail": x["detail"]})
            else:
                st["violations"].append(dict(x, scenario=sc))
        if not st["samples"] and nt and not ref.get("rejected"):
            st["samples"].append({"seed": s, "route": sc["route"], "action": sc["action"], "ops": sc["ops"],
                                  "potable_args": res.get("argv"), "ini": mg.render_ini(sc["model"]),
                                  "hand_edited": (ref.get("texts") or [None])[0],
                                  "observed": _r(res.get("tab")) if sc["route"] == "api" else _cli(res["cli"])})
    return st


def jobs(seed, tier, n=None):
    from .core import run_seed
    total = n or (QUICK_JOBS if tier == "quick" else THOROUGH_JOBS)
    per = 8
    for i in range((total + per - 1) // per):
        yield {"seed": run_seed(seed, PROP, i), "tier": tier, "index": i, "per_job": per}


def replay(scenario, scratch):
    ref, res, v = run_scenario(scenario, scratch)
    return v, short(res, 16)


# ----------------------------------------------------------------------------------------------
# minimisation
# ----------------------------------------------------------------------------------------------

def shrink_candidates(sc):
    for i in range(len(sc["ops"]) - 1, -1, -1):
        if len(sc["ops"]) > 1:
            c = copy.deepcopy(sc)
            del c["ops"][i]
            yield c
    if sc.get("second_parser"):
        c = copy.deepcopy(sc)
        c["second_parser"] = False
        yield c
    for i, o in enumerate(sc["ops"]):
        if o.get("value") and o["section"] in mg.FUNCTION_SECTIONS and o["value"] != "as.constant 2.0":
            c = copy.deepcopy(sc)
            c["ops"][i]["value"] = "as.constant 2.0"
            yield c
        nk = norm_key(o["key"])
        if nk != o["key"] and nk.replace("-", " - ") != o["key"]:
            c = copy.deepcopy(sc)
            c["ops"][i]["key"] = nk.replace("-", " - ") if "-" in nk else nk
            yield c
    spec = sc["model"]
    touched = set((o["section"], norm_key(o["key"])) for o in sc["ops"])
    if sc.get("query"):
        touched.add((sc["query"]["section"], norm_key(sc["query"]["key"])))
    for si, s in enumerate(spec["sections"]):
        if s["name"] in mg.FUNCTION_SECTIONS:
            for ei in range(len(s["entries"])):
                if (s["name"], norm_key(s["entries"][ei][0])) in touched:
                    continue
                c = copy.deepcopy(sc)
                del c["model"]["sections"][si]["entries"][ei]
                yield c
        if s["name"] in ("Species", "Potential-Form") or s["name"].startswith("Table-Form"):
            if not any(t[0] == s["name"] for t in touched):
                c = copy.deepcopy(sc)
                del c["model"]["sections"][si]
                yield c
    for si, s in enumerate(spec["sections"]):
        if s["name"] in mg.FUNCTION_SECTIONS:
            for ei, (k, d) in enumerate(s["entries"]):
                if d != "as.constant 1.0":
                    c = copy.deepcopy(sc)
                    c["model"]["sections"][si]["entries"][ei][1] = "as.constant 1.0"
                    yield c


def minimise(sc, vclass, scratch, budget_s=60.0, max_candidates=200):
    import time
    t0 = time.monotonic()
    tried = 0
    cur = copy.deepcopy(sc)
    improved = True
    while improved and tried < max_candidates and time.monotonic() - t0 < budget_s:
        improved = False
        for c in shrink_candidates(cur):
            if tried >= max_candidates or time.monotonic() - t0 > budget_s:
                break
            tried += 1
            _, _, v = run_scenario(c, scratch)
            if any(x["class"] == vclass for x in v):
                cur = c
                improved = True
                break
    return cur, tried
