"""C13 - species filtering equals deleting the unwanted interactions from the file.

Histories of creating / reading / tabulating several filtered views of one parsed file are
checked, step by step, against the reference model "parse a copy of the file from which the
entries were deleted by hand".  No fault kind is in the statement, none is injected.
"""
import copy
import io
import os
import random
import sys

from . import modelgen as mg
from .util import sha, short, mix64

PROP = "C13"
LEVEL = "exploration"
QUICK_JOBS = 2400
THOROUGH_JOBS = 100000
WALL_CAP = {"quick": 240.0, "thorough": 3300.0}
STATE_MEASURE = "distinct (target, route, filter mode, species-set kind, container type) combinations for which a view was created or potable was run"
READ_ATTRS_COMMON = ["pair", "tabulation", "species", "potential_form", "table_form"]
FILTERED_SECTIONS = ("Pair", "EAM-Embed", "EAM-Density")

RULE = ("one case = (generated pair/EAM/Finnis-Sinclair/ADP model, history of 2-12 operations: create filtered view "
        "(include/exclude; species set empty/single/partial/full/with unknown labels/with duplicates; list/tuple/set), read an "
        "attribute of a view or of the base parser, tabulate through a view or the base parser, drop a view) or one potable "
        "invocation with --include-species/--exclude-species (40 % of them combined with 1-3 -e/-r options on entries that survive the filter, the same options being given to the run on the hand-deleted file); every step is compared with a fresh parse of the hand-deleted "
        "file in a reference child. non-trivial = at least two live views with different (mode, species) AND a read/tabulate "
        "of an older view after a newer one was created (API route), or a CLI run whose filter deletes at least one entry; "
        "distinct = digest of (model, history).")
ASSUMPTIONS = [
    "the hand-deleted file is the generator's ModelSpec with the [Pair]/[EAM-Embed]/[EAM-Density] entries mentioning a species outside S (include) or in S (exclude) removed and everything else byte-identical",
    "reads are compared by repr() of the parsed tuples (order included); tabulations by output bytes or by exception type when both sides fail",
    "no fault is injected: the statement contains none",
]
COMPONENTS = {
    "real": ["atsim.potentials.config (ConfigParser, FilteredConfigParser, Configuration, builders, writers)", "potable main() incl. argparse", "wrapt", "cexprtk", "pyparsing", "openpyxl"],
    "simulated": ["operation history (seeded)", "file object / output file in tmpfs scratch", "clock seen by zipfile/openpyxl (frozen)", "sys.argv/stdout/stderr of potable"],
    "stubbed": [],
}
EXPECTED_PROBES = ["failing-read-then-other-view", "view-of-a-view", "same-species-set-under-both-modes", "two-live-views-different-filters", "older-view-read-after-newer-created", "empty-include-set", "empty-exclude-set",
                   "unknown-label-in-set", "set-container", "tabulate-through-view", "base-read-after-view", "cli-include", "cli-exclude", "cli-filter-combined-with-edits",
                   "filter-removes-all-entries", "zero-filled-species-after-filter"]


# ----------------------------------------------------------------------------------------------
# reference model: delete entries by hand
# ----------------------------------------------------------------------------------------------

def hand_delete(spec, mode, S):
    S = set(S)
    out = copy.deepcopy(spec)
    removed = 0
    for sec in out["sections"]:
        if sec["name"] not in FILTERED_SECTIONS:
            continue
        keep = []
        for k, v in sec["entries"]:
            sp = mg.species_of_key(sec["name"], k)
            if mode == "include":
                drop = any(s not in S for s in sp)
            else:
                drop = any(s in S for s in sp)
            if drop:
                removed += 1
            else:
                keep.append([k, v])
        sec["entries"] = keep
    return out, removed


def hand_delete_chain(spec, chain):
    """Apply several filters one after another (a filtered view of a filtered view)."""
    cur = spec
    removed = 0
    for mode, S in chain:
        cur, n = hand_delete(cur, mode, S)
        removed += n
    return cur, removed


# ----------------------------------------------------------------------------------------------
# scenario generation
# ----------------------------------------------------------------------------------------------

def gen_species_set(rng, species):
    kind = rng.choice(["empty", "single", "partial", "partial", "full", "unknown", "dups"])
    if kind == "empty":
        S = []
    elif kind == "single":
        S = [rng.choice(species)]
    elif kind == "partial":
        S = rng.sample(species, rng.randint(1, max(1, len(species) - 1)))
    elif kind == "full":
        S = list(species)
        rng.shuffle(S)
    elif kind == "unknown":
        # labels that occur nowhere in the file, including near-misses of labels that do
        near = []
        for x in species:
            near += [x.lower(), x.upper(), x + "x", " " + x, x + "-" + x]
            if len(x) > 1:
                near += [x[:-1], x[1:]]
            if len(x) > 3:
                near += [x[:3]]
        near = [n for n in near if n not in species]
        pool = ["Xx", "He", "", "o"] + near
        S = rng.sample(species, rng.randint(0, len(species))) + rng.sample(pool, min(len(pool), rng.randint(1, 3)))
        rng.shuffle(S)
    else:
        S = rng.sample(species, rng.randint(1, len(species)))
        S = S + [rng.choice(S)]
    return kind, S


def model_species(spec):
    sp = []
    for sec in spec["sections"]:
        if sec["name"] in FILTERED_SECTIONS:
            for k, _ in sec["entries"]:
                for s in mg.species_of_key(sec["name"], k):
                    if s not in sp:
                        sp.append(s)
    return sp or list(spec["meta"]["species"])


def _add_cli_edits(sc, seed):
    """Filter combined with -e/-r options (40 % of the CLI scenarios).  The edits touch only entries that survive
    the filter, so "edit then filter" and "delete by hand then edit" mean the same file; both sides get the same
    options.  Drawn from a side stream so that the scenarios generated before this existed are unchanged."""
    rng = random.Random(mix64(seed, "c13-cli-edits"))
    if rng.random() >= 0.4:
        return
    op = sc["ops"][0]
    edited, _ = hand_delete(sc["model"], op["mode"], op["species"])
    raw = {s["name"]: s["entries"] for s in sc["model"]["sections"]}
    edits = []
    touched = set()
    for _ in range(rng.randint(1, 3)):
        secs = [s for s in edited["sections"] if s["name"] in FILTERED_SECTIONS and s["entries"]]
        if not secs:
            break
        sec = rng.choice(secs)
        left = [e for e in sec["entries"] if (sec["name"], e[0]) not in touched]
        if not left:
            continue
        k, v = rng.choice(left)
        touched.add((sec["name"], k))
        if rng.random() < 0.3 and len(left) >= 2 and len(sec["entries"]) - sum(1 for t in touched if t[0] == sec["name"]) >= 1:
            edits.append(["-r", "%s:%s" % (sec["name"], k)])
        else:
            donors = [x[1] for x in raw[sec["name"]] if x[1] != v] or [v]
            edits.append(["-e", "%s:%s=%s" % (sec["name"], k, rng.choice(donors))])
    if edits:
        op["edits"] = edits


def _edit_args(op):
    a = []
    for e in op.get("edits") or []:
        a += list(e)
    return a


def gen_scenario(seed, tier="quick"):
    rng = random.Random(seed)
    spec = mg.gen_model(rng, {"nr_max": 10, "nrho_max": 5, "max_species": 4, "tables_prob": 0.1,
                              "min_functions": 2})
    meta = spec["meta"]
    species = model_species(spec)
    sc = {"property": PROP, "seed": seed, "tier": tier, "potsim": 1, "model": spec}
    if rng.random() < 0.25:
        sc["route"] = "cli"
        kind, S = gen_species_set(rng, species)
        sc["ops"] = [{"op": "cli", "mode": rng.choice(["include", "exclude"]), "species": S, "setkind": kind,
                      "args_first": rng.random() < 0.5}]
        _add_cli_edits(sc, seed)
        return sc
    sc["route"] = "api"
    attrs = list(READ_ATTRS_COMMON)
    if meta["kind"] in ("eam", "adp"):
        attrs += ["eam_embed", "eam_density", "eam_embed", "eam_density"]
    elif meta["kind"] == "fs":
        attrs += ["eam_embed", "eam_density_fs", "eam_embed", "eam_density_fs"]
    else:
        # reads that legitimately fail (the model has no such section): an exception raised half-way through a
        # filtered read must not leave anything behind for the views read afterwards
        attrs += ["eam_embed", "eam_density"]
    attrs += ["pair", "pair"]
    ops = []
    live = []
    nviews = 0
    nops = rng.randint(2, 12)
    for i in range(nops):
        r = rng.random()
        if (not live) or (r < 0.3 and len(live) < 4):
            kind, S = gen_species_set(rng, species)
            mode = rng.choice(["include", "exclude"])
            prev = [o for o in ops if o["op"] == "view"]
            if prev and rng.random() < 0.35:
                # a view related to an earlier one: the same species set under the other mode, or the same
                # filter spelled differently (order, container) - state keyed on only part of a filter collides here
                p0 = rng.choice(prev)
                S = list(p0["species"])
                kind = p0["setkind"]
                rr = rng.random()
                if rr < 0.4:
                    mode = "exclude" if p0["mode"] == "include" else "include"
                elif rr < 0.6:
                    mode = p0["mode"]
                    rng.shuffle(S)
                elif rr < 0.8 and S:
                    mode = p0["mode"]                      # a stricter/looser filter of the same mode: subset
                    S = rng.sample(S, rng.randint(0, len(S) - 1))
                    kind = "partial" if S else "empty"
                else:
                    mode = p0["mode"]                      # superset
                    extra = [x for x in species if x not in S]
                    S = S + rng.sample(extra, rng.randint(0, len(extra)))
                    kind = "partial"
            name = "v%d" % nviews
            nviews += 1
            vop = {"op": "view", "name": name, "mode": mode, "species": S, "setkind": kind,
                   "container": rng.choice(["list", "list", "tuple", "set"])}
            if live and rng.random() < 0.12:
                vop["base"] = rng.choice(live)       # a filtered view of a filtered view
            ops.append(vop)
            live.append(name)
        elif r < 0.7:
            on = rng.choice(live + ["base"]) if rng.random() < 0.85 else "base"
            ops.append({"op": "read", "on": on, "attr": rng.choice(attrs)})
        elif r < 0.93:
            on = rng.choice(live + ["base"]) if rng.random() < 0.9 else "base"
            ops.append({"op": "tabulate", "on": on})
        else:
            v = rng.choice(live)
            live.remove(v)
            ops.append({"op": "drop", "name": v})
    sc["ops"] = ops
    return sc


# ----------------------------------------------------------------------------------------------
# execution
# ----------------------------------------------------------------------------------------------

def _container(S, kind):
    if kind == "tuple":
        return tuple(S)
    if kind == "set":
        return set(S)
    return list(S)


def _tabulate(cp, binary):
    from atsim.potentials.config import Configuration
    try:
        tab = Configuration().read_from_parser(cp)
        fp = io.BytesIO() if binary else io.StringIO()
        tab.write(fp)
        b = fp.getvalue()
        if isinstance(b, str):
            b = b.encode("utf-8")
        return {"ok": True, "sha": sha(b), "len": len(b), "head": b[:120].decode("utf-8", "replace")}
    except Exception as e:
        return {"ok": False, "exc": type(e).__name__, "cfg": _is_cfg(e), "msg": str(e)[:160]}


def _is_cfg(e):
    from atsim.potentials.config._common import ConfigurationException
    return isinstance(e, ConfigurationException)


def _read(cp, attr):
    try:
        v = getattr(cp, attr)
        if attr == "parsed_sections":
            v = sorted(v)
        r = repr(v)
        return {"ok": True, "sha": sha(r), "repr": r[:400]}
    except Exception as e:
        return {"ok": False, "exc": type(e).__name__, "cfg": _is_cfg(e), "msg": str(e)[:160]}


def execute(sc, reference=False):
    from .core import point_atsim_at_repo
    point_atsim_at_repo()
    import logging
    import tempfile
    logging.disable(logging.CRITICAL)
    from .seams import SimClock
    from atsim.potentials.config import ConfigParser, FilteredConfigParser
    clock = SimClock().install()
    spec = sc["model"]
    binary = spec["meta"]["binary"]
    ini = mg.render_ini(spec)
    out = {"ops": []}
    try:
        if sc["route"] == "cli":
            op = sc["ops"][0]
            scratch = tempfile.mkdtemp(prefix="c13-")
            if reference:
                edited, removed = hand_delete(spec, op["mode"], op["species"])
                out["removed"] = removed
                res = _run_potable(mg.render_ini(edited), scratch, _edit_args(op))
                out["plain"] = _run_potable(ini, tempfile.mkdtemp(prefix="c13p-"), [])
            else:
                flag = "--include-species" if op["mode"] == "include" else "--exclude-species"
                res = _run_potable(ini, scratch, [flag] + list(op["species"]) + _edit_args(op), args_first=op.get("args_first"))
                # a later plain invocation in the same process must be unaffected by the filter
                out["plain"] = _run_potable(ini, tempfile.mkdtemp(prefix="c13p-"), [])
            out["ops"].append(res)
            return out
        try:
            base = ConfigParser(io.StringIO(ini))
        except Exception as e:
            out["build_error"] = "%s: %s" % (type(e).__name__, str(e)[:200])
            return out
        views = {}
        filt = {}
        for op in sc["ops"]:
            if op["op"] == "view":
                chain = list(filt[op["base"]]) if op.get("base") in filt else []
                filt[op["name"]] = chain + [(op["mode"], list(op["species"]))]
                if reference:
                    edited, removed = hand_delete_chain(spec, filt[op["name"]])
                    views[op["name"]] = None
                    out["ops"].append({"ok": True, "removed": removed})
                else:
                    S = _container(op["species"], op["container"])
                    under = views.get(op.get("base")) if op.get("base") else base
                    if under is None:
                        under = base
                    try:
                        if op["mode"] == "include":
                            views[op["name"]] = FilteredConfigParser(under, include=S)
                        else:
                            views[op["name"]] = FilteredConfigParser(under, exclude=S)
                        out["ops"].append({"ok": True})
                    except Exception as e:
                        out["ops"].append({"ok": False, "exc": type(e).__name__, "msg": str(e)[:160]})
            elif op["op"] in ("read", "tabulate"):
                on = op["on"]
                if reference:
                    if on == "base":
                        cp = ConfigParser(io.StringIO(ini))
                    else:
                        edited, _ = hand_delete_chain(spec, filt[on])
                        cp = ConfigParser(io.StringIO(mg.render_ini(edited)))
                else:
                    cp = base if on == "base" else views[on]
                if cp is None:
                    out["ops"].append({"ok": False, "exc": "NoView"})
                elif op["op"] == "read":
                    out["ops"].append(_read(cp, op["attr"]))
                else:
                    out["ops"].append(_tabulate(cp, binary))
            elif op["op"] == "drop":
                if not reference:
                    views.pop(op["name"], None)
                    import gc
                    gc.collect()
                out["ops"].append({"ok": True})
    finally:
        clock.uninstall()
    return out


def _run_potable(ini, scratch, extra, args_first=False):
    from atsim.potentials.tools import potable
    in_path = os.path.join(scratch, "model.aspot")
    out_path = os.path.join(scratch, "table.out")
    with open(in_path, "w") as f:
        f.write(ini)
    argv = ["potable", in_path, out_path] + extra
    old = (sys.argv, sys.stdout, sys.stderr)
    sys.argv = argv
    sys.stdout = io.StringIO()
    sys.stderr = io.StringIO()
    rec = {"exit": None, "raised": None}
    try:
        potable.main()
        rec["exit"] = 0
    except SystemExit as e:
        rec["exit"] = e.code if isinstance(e.code, int) else (0 if e.code is None else 1)
        err = sys.stderr.getvalue()
        rec["cfg_error"] = "configuration error" in err
        rec["stderr"] = err[-200:]
    except Exception as e:
        rec["raised"] = type(e).__name__
        rec["msg"] = str(e)[:160]
    finally:
        sys.argv, sys.stdout, sys.stderr = old
    if os.path.exists(out_path):
        with open(out_path, "rb") as f:
            b = f.read()
        rec["file"] = {"len": len(b), "sha": sha(b), "head": b[:120].decode("utf-8", "replace")}
    else:
        rec["file"] = None
    return rec


# ----------------------------------------------------------------------------------------------
# oracle
# ----------------------------------------------------------------------------------------------

def judge(sc, ref, res):
    v = []
    for x in (ref, res):
        if x.get("harness_error"):
            return [{"class": "HARNESS", "detail": x["harness_error"]}]
    if ref.get("build_error") or res.get("build_error"):
        if bool(ref.get("build_error")) != bool(res.get("build_error")):
            return [{"class": "HARNESS", "detail": "base parse differs: %r vs %r" % (ref.get("build_error"), res.get("build_error"))}]
        return []
    target = sc["model"]["meta"]["target"]
    if sc["route"] == "cli":
        op = sc["ops"][0]
        e, g = ref["ops"][0], res["ops"][0]
        tag = "mode=%s/setkind=%s/target=%s" % (op["mode"], op["setkind"], target)
        e_ok = e["exit"] == 0 and e["raised"] is None
        g_ok = g["exit"] == 0 and g["raised"] is None
        if e_ok != g_ok:
            v.append({"class": "C13/cli-outcome-differs-from-hand-deleted-file/" + tag, "op": 0,
                      "detail": "potable %s %s: %s; hand-deleted file: %s" % (op["mode"], op["species"], _outcome(g), _outcome(e))})
        elif e_ok:
            if (e["file"] or {}).get("sha") != (g["file"] or {}).get("sha"):
                v.append({"class": "C13/cli-output-differs-from-hand-deleted-file/" + tag, "op": 0,
                          "detail": "potable --%s-species %s wrote %r; tabulating the hand-deleted file wrote %r" % (op["mode"], op["species"], g["file"], e["file"])})
        else:
            # both failed: must be the same kind of failure (configuration error vs internal exception)
            if (e.get("raised"), bool(e.get("cfg_error"))) != (g.get("raised"), bool(g.get("cfg_error"))):
                v.append({"class": "C13/cli-failure-kind-differs/" + tag, "op": 0,
                          "detail": "filtered: %s; hand-deleted: %s" % (_outcome(g), _outcome(e))})
        pe, pg = ref.get("plain"), res.get("plain")
        if pe and pg and ((pe["exit"], pe["raised"], (pe["file"] or {}).get("sha")) != (pg["exit"], pg["raised"], (pg["file"] or {}).get("sha"))):
            v.append({"class": "C13/later-invocation-affected-by-filter/mode=%s" % op["mode"], "op": 0,
                      "detail": "a plain potable run after the filtered one in the same process: %s ; in a pristine process: %s" % (_outcome(pg), _outcome(pe))})
        return v
    filt = {}
    for i, (op, e, g) in enumerate(zip(sc["ops"], ref["ops"], res["ops"])):
        if op["op"] == "view":
            filt[op["name"]] = op
            if not g.get("ok"):
                v.append({"class": "C13/view-creation-failed/mode=%s/setkind=%s/container=%s" % (op["mode"], op["setkind"], op["container"]), "op": i,
                          "detail": "FilteredConfigParser(%s=%r) raised %s: %s" % (op["mode"], op["species"], g.get("exc"), g.get("msg"))})
            continue
        if op["op"] == "drop":
            continue
        on = op["on"]
        what = "attr=%s" % op["attr"] if op["op"] == "read" else "target=%s" % target
        if on == "base":
            tag = "C13/base-parser-affected-by-views/%s" % what
            who = "base parser"
        else:
            f = filt[on]
            tag = "C13/%s-differs-from-hand-deleted-file/mode=%s/setkind=%s/%s" % (
                "read" if op["op"] == "read" else "tabulation", f["mode"], f["setkind"], what)
            who = "view %s(%s=%r)" % (on, f["mode"], f["species"])
        if e["ok"] and g["ok"]:
            if e["sha"] != g["sha"]:
                v.append({"class": tag, "op": i,
                          "detail": "%s %s: got %s ; hand-deleted file gives %s" % (
                              who, what, g.get("repr") or g.get("head"), e.get("repr") or e.get("head"))})
        elif e["ok"] != g["ok"]:
            v.append({"class": tag, "op": i,
                      "detail": "%s %s: got %s ; hand-deleted file gives %s" % (who, what, _r(g), _r(e))})
        else:
            if e.get("exc") != g.get("exc"):
                v.append({"class": tag.replace("-differs-", "-failure-kind-differs-"), "op": i,
                          "detail": "%s %s: raised %s(%s); hand-deleted file raises %s(%s)" % (who, what, g.get("exc"), g.get("msg"), e.get("exc"), e.get("msg"))})
    return v


def _r(x):
    if x["ok"]:
        return x.get("repr") or ("%d bytes %s" % (x.get("len", -1), x.get("head")))
    return "raised %s(%s)" % (x.get("exc"), x.get("msg"))


def _outcome(x):
    if x["raised"]:
        return "uncaught %s(%s)" % (x["raised"], x.get("msg"))
    if x["exit"] == 0:
        return "exit 0, file %r" % (x["file"],)
    return "exit %s (%s)" % (x["exit"], (x.get("stderr") or "").strip()[-120:])


# ----------------------------------------------------------------------------------------------
# jobs
# ----------------------------------------------------------------------------------------------

def _child_ref(sc):
    return execute(sc, reference=True)


def _child_run(sc):
    return execute(sc, reference=False)


def run_scenario(sc, scratch):
    from .c17 import child
    ref = child(_child_ref, sc, scratch)
    res = child(_child_run, sc, scratch)
    return ref, res, judge(sc, ref, res)


def nontrivial(sc, ref):
    if sc["route"] == "cli":
        return (ref or {}).get("removed", 0) > 0
    live = {}
    order = 0
    ok = False
    for op in sc["ops"]:
        if op["op"] == "view":
            order += 1
            live[op["name"]] = (order, op["mode"], tuple(op["species"]))
        elif op["op"] == "drop":
            live.pop(op["name"], None)
        elif op["op"] in ("read", "tabulate") and op["on"] in live:
            me = live[op["on"]]
            for other in live.values():
                if other[0] > me[0] and other[1:] != me[1:]:
                    ok = True
    return ok


def run_job(job):
    seed, tier, scratch = job["seed"], job["tier"], job["scratch"]
    st = {"runs": 0, "keys": [], "violations": [], "harness": [], "stats": {}, "samples": [], "evals": 0, "events": 0}

    def bump(name, n=1):
        st["stats"][name] = st["stats"].get(name, 0) + n

    for sub in range(job.get("per_job", 8)):
        s = mix64(seed, "sub", sub) & 0x7FFFFFFFFFFF
        sc = gen_scenario(s, tier)
        ref, res, v = run_scenario(sc, scratch)
        st["runs"] += 1
        st["events"] += len(sc["ops"])
        st.setdefault("evdigs", []).append(short([ref, res], 20))
        bump("route=" + sc["route"])
        bump("kind=" + sc["model"]["meta"]["kind"])
        if ref.get("build_error"):
            st["invalid"] = ref["build_error"]
            continue
        if nontrivial(sc, ref):
            st["keys"].append(short({"m": sc["model"]["sections"], "o": sc["ops"]}, 16))
        _probes(sc, ref, res, bump)
        for op in sc["ops"]:
            if op["op"] in ("view", "cli"):
                bump("state:%s|%s|%s|%s|%s" % (sc["model"]["meta"]["target"], sc["route"], op["mode"], op["setkind"], op.get("container", "argv")))
        for x in v:
            if x["class"] == "HARNESS":
                st["harness"].append({"seed": s, "detail": x["detail"]})
            else:
                st["violations"].append(dict(x, scenario=sc))
        if not st["samples"] and nontrivial(sc, ref):
            st["samples"].append({"seed": s, "route": sc["route"], "target": sc["model"]["meta"]["target"], "ops": sc["ops"],
                                  "ini": mg.render_ini(sc["model"]),
                                  "observed": [(_r(x) if "ok" in x else _outcome(x))[:200] for x in (res.get("ops") or [])]})
    return st


def _probes(sc, ref, res, bump):
    live = {}
    order = 0
    failing_read_seen = False
    for op, e in zip(sc["ops"], ref.get("ops", [])):
        if op["op"] == "cli":
            bump("probe:cli-" + op["mode"])
            if op.get("edits"):
                bump("probe:cli-filter-combined-with-edits")
                for ed_ in op["edits"]:
                    bump("cli-edit" + ed_[0])
            if e.get("exit") != 0 or e.get("raised"):
                bump("cli-hand-deleted-file-is-rejected")
        if op["op"] in ("view", "cli"):
            if not op["species"]:
                bump("probe:empty-%s-set" % op["mode"])
            if op["setkind"] == "unknown":
                bump("probe:unknown-label-in-set")
            if op.get("container") == "set":
                bump("probe:set-container")
            bump("setkind=" + op["setkind"])
        if op["op"] == "view" and op.get("base"):
            bump("probe:view-of-a-view")
        if op["op"] == "view":
            order += 1
            if any(o[1] != op["mode"] and sorted(o[2]) == sorted(op["species"]) for o in live.values()):
                bump("probe:same-species-set-under-both-modes")
            live[op["name"]] = (order, op["mode"], tuple(op["species"]))
            if len(set(x[1:] for x in live.values())) >= 2:
                bump("probe:two-live-views-different-filters")
            nfunc = sum(len(s["entries"]) for s in sc["model"]["sections"] if s["name"] in FILTERED_SECTIONS)
            if e.get("removed") == nfunc and nfunc:
                bump("probe:filter-removes-all-entries")
        elif op["op"] == "drop":
            live.pop(op["name"], None)
        elif op["op"] in ("read", "tabulate"):
            if op["op"] == "read" and op["on"] != "base" and not e.get("ok", True):
                failing_read_seen = True
            elif failing_read_seen and op["on"] != "base":
                bump("probe:failing-read-then-other-view")
                failing_read_seen = False
            if op["on"] == "base":
                if live:
                    bump("probe:base-read-after-view")
            else:
                me = live.get(op["on"])
                if me and any(o[0] > me[0] for o in live.values()):
                    bump("probe:older-view-read-after-newer-created")
                if op["op"] == "tabulate":
                    bump("probe:tabulate-through-view")
                    if e.get("ok"):
                        bump("tabulate-through-view-succeeds")
                        if sc["model"]["meta"]["kind"] != "pair":
                            mode, S = me[1], me[2]
                            ed, removed = hand_delete(sc["model"], mode, list(S))
                            emb = [k for s in ed["sections"] if s["name"] == "EAM-Embed" for k, _ in s["entries"]]
                            den = set()
                            for s in ed["sections"]:
                                if s["name"] == "EAM-Density":
                                    for k, _ in s["entries"]:
                                        den.update(mg.species_of_key("EAM-Density", k))
                            if removed and (den - set(emb)):
                                bump("probe:zero-filled-species-after-filter")
                    else:
                        bump("tabulate-through-view-both-fail")


def jobs(seed, tier, n=None):
    from .core import run_seed
    total = n or (QUICK_JOBS if tier == "quick" else THOROUGH_JOBS)
    per = 8
    for i in range((total + per - 1) // per):
        yield {"seed": run_seed(seed, PROP, i), "tier": tier, "index": i, "per_job": per}


def replay(scenario, scratch):
    ref, res, v = run_scenario(scenario, scratch)
    return v, short(res, 16)


# ----------------------------------------------------------------------------------------------
# minimisation
# ----------------------------------------------------------------------------------------------

def shrink_candidates(sc):
    ops = sc["ops"]
    # drop ops (keeping view definitions that are still referenced)
    for i in range(len(ops) - 1, -1, -1):
        c = copy.deepcopy(sc)
        del c["ops"][i]
        if _valid(c):
            yield c
    # simplify species sets
    for i, op in enumerate(ops):
        if op["op"] in ("view", "cli") and len(op["species"]) > 0:
            for j in range(len(op["species"])):
                c = copy.deepcopy(sc)
                del c["ops"][i]["species"][j]
                yield c
        if op.get("container") in ("tuple", "set"):
            c = copy.deepcopy(sc)
            c["ops"][i]["container"] = "list"
            yield c
    # drop model entries / sections
    spec = sc["model"]
    for si, s in enumerate(spec["sections"]):
        if s["name"] in mg.FUNCTION_SECTIONS:
            for ei in range(len(s["entries"])):
                c = copy.deepcopy(sc)
                del c["model"]["sections"][si]["entries"][ei]
                yield c
        if s["name"] in ("Species", "Potential-Form") or s["name"].startswith("Table-Form"):
            c = copy.deepcopy(sc)
            del c["model"]["sections"][si]
            yield c
    for si, s in enumerate(spec["sections"]):
        if s["name"] in mg.FUNCTION_SECTIONS:
            for ei, (k, d) in enumerate(s["entries"]):
                if d != "as.constant 1.0":
                    c = copy.deepcopy(sc)
                    c["model"]["sections"][si]["entries"][ei][1] = "as.constant 1.0"
                    yield c
    meta = spec["meta"]
    small_nr = 8 if meta["target"] == "DLPOLY" else 4
    if meta["nr"] > small_nr:
        c = copy.deepcopy(sc)
        mg.set_tab(c["model"], "nr", str(small_nr))
        c["model"]["meta"]["nr"] = small_nr
        yield c


def _valid(sc):
    live = set()
    if not sc["ops"]:
        return False
    for op in sc["ops"]:
        if op["op"] == "view":
            if op.get("base") and op["base"] not in live:
                return False
            live.add(op["name"])
        elif op["op"] == "drop":
            if op["name"] not in live:
                return False
            live.discard(op["name"])
        elif op["op"] in ("read", "tabulate"):
            if op["on"] != "base" and op["on"] not in live:
                return False
    return True


def minimise(sc, vclass, scratch, budget_s=60.0, max_candidates=200):
    import time
    t0 = time.monotonic()
    tried = 0
    cur = copy.deepcopy(sc)
    improved = True
    while improved and tried < max_candidates and time.monotonic() - t0 < budget_s:
        improved = False
        for c in shrink_candidates(cur):
            if tried >= max_candidates or time.monotonic() - t0 > budget_s:
                break
            tried += 1
            _, _, v = run_scenario(c, scratch)
            if any(x["class"] == vclass for x in v):
                cur = c
                improved = True
                break
    return cur, tried
