"""potsim - deterministic simulation with fault injection for atsim-potentials.

See /verif/DESIGN.md.  Everything here is driven by one integer (VERIF_SEED).
"""
POTSIM_VERSION = 1
