"""Generic check driver:  bin/check <PROPERTY> [--tier quick|thorough] [--replay FILE] ..."""
import argparse
import concurrent.futures
import importlib
import json
import multiprocessing
import os
import sys
import time

from . import core
from .util import short

MODULES = {"C17": "potsim.c17", "C12": "potsim.c12", "C13": "potsim.c13", "C14": "potsim.c14"}


def _job_entry(args):
    modname, job = args
    mod = importlib.import_module(modname)
    return mod.run_job(job)


def main(argv=None):
    core.ensure_env()
    ap = argparse.ArgumentParser(prog="check")
    ap.add_argument("property")
    ap.add_argument("--tier", default=os.environ.get("VERIF_TIER", "quick"), choices=["quick", "thorough"])
    ap.add_argument("--replay")
    ap.add_argument("--jobs", type=int, default=None, help="number of jobs (default: per tier)")
    ap.add_argument("--wall", type=float, default=None, help="wall-clock cap in seconds")
    ap.add_argument("--workers", type=int, default=None)
    ap.add_argument("--no-evidence", action="store_true")
    ap.add_argument("--no-minimise", action="store_true")
    ap.add_argument("--print-digests", action="store_true")
    a = ap.parse_args(argv)
    if a.property.startswith("selftest"):
        from . import selftest
        return selftest.main(a)
    if a.property not in MODULES:
        print("unknown property %s" % a.property)
        return 2
    mod = importlib.import_module(MODULES[a.property])
    try:
        if a.replay:
            return do_replay(mod, a)
        return do_check(mod, a)
    finally:
        core.cleanup()


def do_replay(mod, a):
    core.preload()
    with open(a.replay) as f:
        doc = json.load(f)
    sc = doc["scenario"]
    scratch = core.scratch_root()
    v, dg = mod.replay(sc, scratch)
    want = (doc.get("violation") or {}).get("class")
    real = [x for x in v if x["class"] != "HARNESS"]
    for x in v:
        print("replay: %s :: %s" % (x["class"], x.get("detail", "")[:400]))
    print("replay: events digest %s" % dg)
    if any(x["class"] == "HARNESS" for x in v):
        print("HARNESS-ERROR during replay")
        return 2
    if real:
        same = any(x["class"] == want for x in real) if want else True
        print("VIOLATION property=%s replay=%s%s" % (mod.PROP, os.path.abspath(a.replay), "" if same else " (class differs from recorded %s)" % want))
        return 1
    print("replay: no violation (recorded: %s)" % want)
    return 0


def do_check(mod, a):
    t0 = time.monotonic()
    tier = a.tier
    seed = core.get_seed(tier)
    print("potsim check property=%s tier=%s VERIF_SEED=%d repo=%s" % (mod.PROP, tier, seed, core.repo_dir()))
    sys.stdout.flush()
    scratch = core.scratch_root()
    wall = a.wall or float(os.environ.get("POTSIM_WALL", 0)) or (mod.WALL_CAP[tier] if hasattr(mod, "WALL_CAP") else (240.0 if tier == "quick" else 3600.0))
    workers = a.workers or int(os.environ.get("POTSIM_WORKERS", "0")) or min(16, os.cpu_count() or 1)
    joblist = list(mod.jobs(seed, tier, a.jobs))
    for j in joblist:
        j["scratch"] = scratch
    agg = {"runs": 0, "keys": set(), "violations": [], "harness": [], "stats": {}, "samples": [], "evals": 0, "events": 0,
           "jobs_done": 0, "jobs_total": len(joblist), "invalid": 0, "extra": {}}
    truncated = False
    ctx = multiprocessing.get_context("fork")
    ex = concurrent.futures.ProcessPoolExecutor(max_workers=workers, mp_context=ctx, initializer=core._worker_init)
    try:
        pending = {}
        it = iter(joblist)
        done_submitting = False
        while True:
            while not done_submitting and len(pending) < workers * 2:
                if time.monotonic() - t0 > wall:
                    truncated = True
                    done_submitting = True
                    break
                try:
                    j = next(it)
                except StopIteration:
                    done_submitting = True
                    break
                pending[ex.submit(_job_entry, (mod.__name__, j))] = j
            if not pending:
                break
            done, _ = concurrent.futures.wait(list(pending), timeout=5.0, return_when=concurrent.futures.FIRST_COMPLETED)
            for f in done:
                j = pending.pop(f)
                try:
                    st = f.result()
                except BaseException as e:
                    agg["harness"].append({"seed": j["seed"], "detail": "worker failure: %r" % (e,)})
                    continue
                merge(agg, st)
                if j["index"] < 64:
                    agg.setdefault("job_evdigs", {})[j["index"]] = list(st.get("evdigs", []))
            if time.monotonic() - t0 > wall * 1.5 + 60:
                agg["harness"].append({"detail": "batch exceeded 1.5x wall cap; abandoning %d pending jobs" % len(pending)})
                for f in pending:
                    f.cancel()
                break
    finally:
        procs = list((getattr(ex, "_processes", None) or {}).values())
        ex.shutdown(wait=not pending, cancel_futures=True)
        if pending:
            for p in procs:
                try:
                    p.kill()
                except Exception:
                    pass

    # post-batch determinism re-sample: re-run the first K jobs in this (other) process and compare
    # the per-scenario event-log digests with those recorded in the batch
    core.preload()
    K = int(os.environ.get("POTSIM_RESAMPLE", "4" if tier == "quick" else "32"))
    resample = {"jobs": 0, "scenarios": 0, "mismatches": 0}
    for j in joblist[:K]:
        if j["index"] not in agg.get("job_evdigs", {}):
            continue
        st2 = mod.run_job(j)
        resample["jobs"] += 1
        resample["scenarios"] += len(st2.get("evdigs", []))
        if list(st2.get("evdigs", [])) != agg["job_evdigs"][j["index"]]:
            resample["mismatches"] += 1
            agg["harness"].append({"seed": j["seed"], "detail": "determinism re-sample: event-log digests of job %d differ between two executions" % j["index"]})
    agg["extra"]["determinism_resample"] = resample
    if hasattr(mod, "post_batch"):
        mod.post_batch(agg, seed, tier, scratch)

    # violations: group by class, minimise the first of each unlisted class, write replay
    known = core.load_known_findings()
    by_class = {}
    for v in agg["violations"]:
        by_class.setdefault(v["class"], []).append(v)
    unlisted = 0
    known_hit = {}
    core.preload()
    min_budget = float(os.environ.get("POTSIM_MINIMISE_BUDGET", "150" if tier == "quick" else "600"))
    min_classes = int(os.environ.get("POTSIM_MINIMISE_CLASSES", "4"))
    t_min0 = time.monotonic()
    n_minimised = 0
    for cls in sorted(by_class):
        k = core.match_known(known, mod.PROP, cls)
        if k is not None:
            known_hit.setdefault(k["class"], [k, 0])[1] += len(by_class[cls])
            continue
        unlisted += 1
        first = min(by_class[cls], key=lambda x: len(core.cjson(x["scenario"])))
        sc = first["scenario"]
        tried = 0
        msc = sc
        left = min_budget - (time.monotonic() - t_min0)
        if not a.no_minimise and hasattr(mod, "minimise") and n_minimised < min_classes and left > 5:
            n_minimised += 1
            try:
                msc, tried = mod.minimise(sc, cls, scratch, budget_s=min(left, min_budget / 2.0))
                v2, _ = mod.replay(msc, scratch)
                if not any(x["class"] == cls for x in v2):
                    agg["extra"].setdefault("minimiser_nonreproducing", []).append(cls)
                    msc = sc
                else:
                    first = dict(first, detail_of_original_instance=first.get("detail"),
                                 detail=[x for x in v2 if x["class"] == cls][0].get("detail"))
            except Exception as e:
                agg["extra"].setdefault("minimiser_errors", []).append(repr(e))
                msc = sc
        path = core.write_replay(mod.PROP, "%s-%s" % (sc.get("seed"), short(cls, 8)), msc,
                                 {"class": cls, "detail": first.get("detail"), "instances_in_batch": len(by_class[cls]),
                                  "minimiser_candidates_tried": tried,
                                  "detail_of_original_instance": first.get("detail_of_original_instance")})
        print("violation class: %s (%d instance(s))\n  %s" % (cls, len(by_class[cls]), (first.get("detail") or "")[:500]))
        print("VIOLATION property=%s replay=%s" % (mod.PROP, path))
    for cls, (k, n) in sorted(known_hit.items()):
        print("KNOWN-FINDING: property=%s %s [%d instance(s) this run; class %s]" % (mod.PROP, k.get("what", ""), n, cls))

    wall_s = time.monotonic() - t0
    from .util import digest as _digest
    batch_digest = _digest({"keys": sorted(agg["keys"]), "stats": agg["stats"], "runs": agg["runs"], "evals": agg["evals"],
                            "events": agg["events"], "classes": sorted(by_class), "sched": sorted(agg.get("sched", [])),
                            "event_logs": sorted(agg.get("evdigs", []))})
    agg["extra"]["event_log_digests_compared_in_batch_digest"] = len(agg.get("evdigs", []))
    agg["extra"]["batch_digest"] = batch_digest
    if a.print_digests:
        print("BATCH-DIGEST %s" % batch_digest)
    cov = build_coverage(mod, agg, tier, wall_s, truncated, workers, known_hit)
    if not a.no_evidence:
        core.write_evidence(mod.PROP, tier, seed, mod.LEVEL, cov, wall_s, unlisted, mod.ASSUMPTIONS if hasattr(mod, "ASSUMPTIONS") else [])
    print("runs=%d distinct_nontrivial=%d jobs=%d/%d invalid_models=%d harness_errors=%d unlisted_violation_classes=%d known_finding_classes=%d wall=%.1fs"
          % (agg["runs"], len(agg["keys"]), agg["jobs_done"], agg["jobs_total"], agg["invalid"], len(agg["harness"]), unlisted, len(known_hit), wall_s))
    if agg["harness"]:
        for h in agg["harness"][:5]:
            print("HARNESS-ERROR: %s" % (json.dumps(h)[:600]))
    if unlisted:
        return 1
    if agg["harness"]:
        return 2
    if len(agg["keys"]) < 2:
        print("HARNESS-ERROR: fewer than 2 distinct non-trivial cases explored")
        return 2
    return 0


def merge(agg, st):
    agg["jobs_done"] += 1
    agg["runs"] += st.get("runs", 0)
    agg["keys"].update(st.get("keys", []))
    agg["violations"].extend(st.get("violations", []))
    agg["harness"].extend(st.get("harness", []))
    agg["evals"] += st.get("evals", 0)
    agg["events"] += st.get("events", 0)
    if st.get("invalid"):
        agg["invalid"] += 1
    if st.get("sched_keys"):
        agg.setdefault("sched", set()).update(st["sched_keys"])
    if st.get("evdigs"):
        agg.setdefault("evdigs", []).extend(st["evdigs"])
    for k, v in st.get("stats", {}).items():
        agg["stats"][k] = agg["stats"].get(k, 0) + v
    for s in st.get("samples", []):
        if len(agg["samples"]) < 3:
            agg["samples"].append(s)
    for k, v in st.get("extra", {}).items():
        if isinstance(v, (int, float)):
            agg["extra"][k] = agg["extra"].get(k, 0) + v
        elif isinstance(v, list):
            agg["extra"].setdefault(k, []).extend(v)


def build_coverage(mod, agg, tier, wall_s, truncated, workers, known_hit):
    stats = agg["stats"]
    fired = {k[len("fired:"):]: v for k, v in stats.items() if k.startswith("fired:")}
    probes = {k[len("probe:"):]: v for k, v in stats.items() if k.startswith("probe:")}
    other = {k: v for k, v in stats.items() if not k.startswith(("fired:", "probe:", "state:"))}
    states = sorted(k[len("state:"):] for k in stats if k.startswith("state:"))
    cov = {
        "evaluations": agg["runs"],
        "distinct_nontrivial": len(agg["keys"]),
        "rule": mod.RULE,
        "samples": agg["samples"] or [{"note": "no sample recorded"}],
        "exhaustive": False,
        "simulated_runs": agg["runs"],
        "runs_per_hour": int(agg["runs"] / wall_s * 3600) if wall_s > 0 else 0,
        "seeds": agg["jobs_done"],
        "seeds_per_hour": int(agg["jobs_done"] / wall_s * 3600) if wall_s > 0 else 0,
        "jobs_planned": agg["jobs_total"],
        "truncated_by_wall_cap": truncated,
        "workers": workers,
        "function_evaluations_simulated": agg["evals"],
        "simulator_events": agg["events"],
        "fault_kinds_fired": fired,
        "probes": probes,
        "probes_at_zero": sorted(p for p in getattr(mod, "EXPECTED_PROBES", []) if not probes.get(p)),
        "counters": other,
        "invalid_models_skipped": agg["invalid"],
        "harness_errors": len(agg["harness"]),
        "known_finding_classes_seen": sorted(known_hit),
        "components": getattr(mod, "COMPONENTS", {}),
        "distinct_abstract_states": len(states),
        "abstract_state_measure": getattr(mod, "STATE_MEASURE", "n/a"),
        "abstract_state_examples": states[:: max(1, len(states) // 8)][:8],
    }
    cov.update(agg.get("extra", {}))
    cov.setdefault("simulated_clock_seconds", 0.0)
    cov["simulated_time_note"] = ("virtual wall-clock seconds the simulated clock was moved by clock-jump operations (C12); "
                                  "in every other run the virtual clock is frozen at its start value, and there are no timers or "
                                  "deadlines in the repository for discrete-event time to skip over")
    if "sched" in agg:
        cov["distinct_interleavings"] = len(agg["sched"])
        cov["distinct_interleavings_measure"] = "distinct digests of the recorded scheduler decision sequence among non-trivial runs"
    return cov
