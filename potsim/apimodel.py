"""Models built directly through the Python API (no .ini file): Potential / EAMPotential objects
holding user callables, handed to tabulation classes or to the procedural writer functions.

ApiSpec (plain JSON):
  {"writer": <name in WRITERS>, "nr", "cutoff", "nrho", "cutoff_rho",
   "pairs": [{"a","b","f": FDesc}], "eam": [{"species","Z","mass","embed": FDesc, "density": FDesc | {sp: FDesc}}],
   "dipole": [...pairs...], "quadrupole": [...pairs...]}
FDesc = {"k": "lambda", "name": <LAMBDAS key>, "p": [...]} | {"k": "form", "name": <potentialforms name>, "p": [...]}
      | {"k": "plus"|"product", "a": FDesc, "b": FDesc} | {"k": "ranges", "parts": [[">"|">=", start, FDesc], ...]}
      | {"k": "failing", "edge": x, "exc": name, "base": FDesc}   (user callable that raises beyond `edge`)
      | {"k": "withderiv", "base": FDesc}                            (user callable object offering .deriv)
"""
import math

from .util import fmt_num

WRITERS = {
    # name: (kind, binary, zero_grid)
    "LAMMPS_PairTabulation": ("pair", False, False),
    "DLPoly_PairTabulation": ("pair", False, False),
    "GULP_PairTabulation": ("pair", False, True),
    "Excel_PairTabulation": ("pair", True, True),
    "writePotentials:LAMMPS": ("pair", False, False),
    "writePotentials:DL_POLY": ("pair", False, False),
    "writePotentials:GULP": ("pair", False, True),
    "SetFL_EAMTabulation": ("eam", False, True),
    "TABEAM_EAMTabulation": ("eam", False, True),
    "Excel_EAMTabulation": ("eam", True, True),
    "ADP_EAMTabulation": ("adp", False, True),
    "writeSetFL": ("eam", False, True),
    "writeTABEAM": ("eam", False, True),
    "writeFuncFL": ("funcfl", False, True),
    "SetFL_FS_EAMTabulation": ("fs", False, True),
    "TABEAM_FinnisSinclair_EAMTabulation": ("fs", False, True),
    "Excel_FinnisSinclair_EAMTabulation": ("fs", True, True),
    "writeSetFLFinnisSinclair": ("fs", False, True),
    "writeTABEAMFinnisSinclair": ("fs", False, True),
}

LAMBDAS = {
    "expdecay": (lambda A, rho: (lambda r: A * math.exp(-r / rho)), [(1, 500), (0.2, 0.8)]),
    "gauss": (lambda A, w: (lambda r: A * math.exp(-(r / w) ** 2)), [(-3, 3), (0.5, 3)]),
    "poly2": (lambda a, b, c: (lambda r: a + b * r + c * r * r), [(-2, 2), (-2, 2), (-0.5, 0.5)]),
    "inv1p": (lambda A: (lambda r: A / (1.0 + r)), [(0.1, 10)]),
    "negsqrt": (lambda A: (lambda r: -A * math.sqrt(r)), [(0.1, 3)]),
    "const": (lambda c: (lambda r: c), [(0.1, 2)]),
}
ZERO_SAFE_FORMS = {"polynomial": (1, 4, (-2, 2)), "constant": (1, 1, (0.1, 2)), "zero": (0, 0, (0, 0)), "sqrt": (1, 1, (0.5, 3))}
ANY_FORMS = {"buck": [(100, 2000), (0.2, 0.5), (0, 30)], "bornmayer": [(100, 2000), (0.2, 0.5)], "lj": [(0.01, 0.5), (1, 3)],
             "morse": [(1, 2.5), (1, 3), (0.1, 3)], "coul": [(-2, 2), (1, 2)], "hbnd": [(100, 1000), (10, 100)]}
REAL = {"Al": (13, 26.98), "Cu": (29, 63.55), "Fe": (26, 55.85), "Ni": (28, 58.69), "Ag": (47, 107.87), "U": (92, 238.03), "O": (8, 16.0)}


def _u(rng, lo, hi):
    return round(rng.uniform(lo, hi), 3)


def gen_fdesc(rng, zero_safe, positive=False, depth=0):
    r = rng.random()
    if positive:
        name = rng.choice(["expdecay", "const", "inv1p"])
        return {"k": "lambda", "name": name, "p": [abs(_u(rng, lo, hi)) + 0.05 for lo, hi in LAMBDAS[name][1]]}
    if depth < 2 and r < 0.15:
        return {"k": rng.choice(["plus", "product"]), "a": gen_fdesc(rng, zero_safe, depth=depth + 1), "b": gen_fdesc(rng, zero_safe, depth=depth + 1)}
    if depth < 1 and r < 0.25:
        c = _u(rng, 0.5, 2.5)
        first = [">=", 0.0, gen_fdesc(rng, True, depth=2)] if zero_safe else [">", 0.0, gen_fdesc(rng, False, depth=2)]
        return {"k": "ranges", "parts": [first, [rng.choice([">", ">="]), c, gen_fdesc(rng, zero_safe, depth=2)]]}
    if r < 0.35:
        return {"k": "withderiv", "base": {"k": "lambda", "name": "poly2", "p": [_u(rng, -2, 2), _u(rng, -2, 2), _u(rng, -0.5, 0.5)]}}
    if r < 0.47:
        # pre-tabulated data through the legacy TableReader (linear interpolation, 0 outside the table)
        n = rng.randint(4, 9)
        x0 = rng.choice([0.0, 0.0, 0.1, 0.35])
        top = rng.choice([3.0, 5.0, 8.0])
        xs = [round(x0 + (top - x0) * i / (n - 1), 4) for i in range(n)]
        return {"k": "tablereader", "pts": [[x, round(rng.uniform(-1, 1) + 10.0 / (1 + 3 * x), 4)] for x in xs]}
    if r < 0.65:
        name = rng.choice(sorted(LAMBDAS))
        return {"k": "lambda", "name": name, "p": [_u(rng, lo, hi) for lo, hi in LAMBDAS[name][1]]}
    if zero_safe:
        name = rng.choice(sorted(ZERO_SAFE_FORMS))
        lo_n, hi_n, (lo, hi) = ZERO_SAFE_FORMS[name]
        return {"k": "form", "name": name, "p": [_u(rng, lo, hi) for _ in range(rng.randint(lo_n, hi_n))]}
    name = rng.choice(sorted(ANY_FORMS))
    return {"k": "form", "name": name, "p": [_u(rng, lo, hi) for lo, hi in ANY_FORMS[name]]}


def gen_api_model(rng, natural=False, tier="quick"):
    writer = rng.choice(sorted(WRITERS))
    kind, binary, zero = WRITERS[writer]
    nsp = 1 if kind == "funcfl" else rng.randint(1, 3)
    species = rng.sample(sorted(REAL), nsp)
    nr = rng.randint(4, 16 if tier == "quick" else 24)
    if writer in ("DLPoly_PairTabulation", "writePotentials:DL_POLY"):
        nr = 4 * rng.randint(2, 5)
    spec = {"api": True, "writer": writer, "nr": nr, "cutoff": rng.choice([2.0, 3.0, 4.5, 6.0]),
            "nrho": rng.randint(3, 8), "cutoff_rho": rng.choice([2.0, 10.0, 50.0]), "species": species,
            "pairs": [], "eam": [], "dipole": [], "quadrupole": []}
    allpairs = [(a, b) for i, a in enumerate(species) for b in species[i:]]
    rng.shuffle(allpairs)
    if kind == "funcfl":
        spec["pairs"] = [{"a": species[0], "b": species[0], "f": gen_fdesc(rng, True, positive=True)}]
    else:
        npairs = rng.randint(1 if kind == "pair" else 0, len(allpairs))
        for a, b in allpairs[:npairs]:
            if rng.random() < 0.5:
                a, b = b, a
            spec["pairs"].append({"a": a, "b": b, "f": gen_fdesc(rng, zero)})
    if kind != "pair":
        for s in species:
            e = {"species": s, "Z": REAL[s][0], "mass": REAL[s][1], "embed": gen_fdesc(rng, True)}
            if kind == "fs":
                e["density"] = {t: gen_fdesc(rng, True) for t in species}
            else:
                e["density"] = gen_fdesc(rng, True)
            spec["eam"].append(e)
    if kind == "adp":
        for nm in ("dipole", "quadrupole"):
            ps = list(allpairs)
            rng.shuffle(ps)
            spec[nm] = [{"a": a, "b": b, "f": gen_fdesc(rng, True)} for a, b in ps[:rng.randint(0, len(ps))]]
    spec["meta"] = {"kind": kind, "target": writer, "binary": binary, "nr": nr, "nrho": spec["nrho"], "cutoff": spec["cutoff"],
                    "cutoff_rho": spec["cutoff_rho"], "species": species, "natural_fault": None}
    if natural:
        slots = function_slots(spec)
        if slots:
            path = rng.choice(slots)
            embed = path[0] == "eam" and path[2] == "embed"
            cut = spec["cutoff_rho"] if embed else spec["cutoff"]
            holder, key = _resolve(spec, path)
            edge = round(rng.uniform(0.05, 0.95) * cut, 3)
            exc = rng.choice(["ValueError", "ZeroDivisionError", "OverflowError", "KeyError", "TypeError", "UserError", "StopIteration", "IndexError"])
            holder[key] = {"k": "failing", "edge": edge, "exc": exc, "base": holder[key]}
            spec["meta"]["natural_fault"] = {"label": "user-callable-raises-" + exc, "section": "/".join(str(x) for x in path[:3]), "exc": exc, "edge": edge}
    return spec


def fdesc_boundaries(fd):
    """Range-start and table-knot values of an FDesc (points where its value may change form)."""
    out = []
    k = fd.get("k")
    if k == "ranges":
        for t, start, f in fd["parts"]:
            out.append(float(start))
            out += fdesc_boundaries(f)
    elif k in ("plus", "product"):
        out += fdesc_boundaries(fd["a"]) + fdesc_boundaries(fd["b"])
    elif k == "failing":
        out += [float(fd["edge"])] + fdesc_boundaries(fd["base"])
    elif k == "tablereader":
        out += [float(x) for x, y in fd["pts"]]
    return out


def function_fdescs(spec):
    """{harness label: FDesc} for every function of an ApiSpec."""
    out = {}
    for nm, pref in (("pairs", "pair"), ("dipole", "dipole"), ("quadrupole", "quadrupole")):
        for p in spec[nm]:
            out["%s:%s-%s" % (pref, p["a"], p["b"])] = p["f"]
    for e in spec["eam"]:
        out["embed:%s" % e["species"]] = e["embed"]
        d = e["density"]
        if isinstance(d, dict) and "k" not in d:
            for t in d:
                out["dens:%s->%s" % (e["species"], t)] = d[t]
        else:
            out["dens:%s" % e["species"]] = d
    return out


def function_slots(spec):
    out = []
    for i, _ in enumerate(spec["pairs"]):
        out.append(("pairs", i, "f"))
    for i, e in enumerate(spec["eam"]):
        out.append(("eam", i, "embed"))
        if isinstance(e["density"], dict) and "k" not in e["density"]:
            for t in sorted(e["density"]):
                out.append(("eam", i, "density", t))
        else:
            out.append(("eam", i, "density"))
    for nm in ("dipole", "quadrupole"):
        for i, _ in enumerate(spec[nm]):
            out.append((nm, i, "f"))
    return out


def _resolve(spec, path):
    holder = spec[path[0]][path[1]]
    if len(path) == 4:
        return holder[path[2]], path[3]
    return holder, path[2]


class UserError(Exception):
    pass


class _WithDeriv(object):
    """A user callable object offering an analytic first derivative."""

    def __init__(self, a, b, c):
        self.a, self.b, self.c = a, b, c

    def __call__(self, r):
        return self.a + self.b * r + self.c * r * r

    def deriv(self, r):
        return self.b + 2.0 * self.c * r


def build_callable(fd):
    import atsim.potentials
    from atsim.potentials import potentialforms
    k = fd["k"]
    if k == "lambda":
        return LAMBDAS[fd["name"]][0](*fd["p"])
    if k == "form":
        return getattr(potentialforms, fd["name"])(*fd["p"])
    if k == "plus":
        return atsim.potentials.plus(build_callable(fd["a"]), build_callable(fd["b"]))
    if k == "product":
        return atsim.potentials.product(build_callable(fd["a"]), build_callable(fd["b"]))
    if k == "ranges":
        from atsim.potentials import create_Multi_Range_Potential_Form, Multi_Range_Defn
        return create_Multi_Range_Potential_Form(*[Multi_Range_Defn(t, s, build_callable(f)) for t, s, f in fd["parts"]])
    if k == "withderiv":
        return _WithDeriv(*fd["base"]["p"])
    if k == "tablereader":
        import io
        return atsim.potentials.TableReader(io.StringIO("".join("%s %s\n" % (fmt_num(x), fmt_num(y)) for x, y in fd["pts"])))
    if k == "failing":
        base = build_callable(fd["base"])
        edge = fd["edge"]
        exc = {"ValueError": ValueError, "ZeroDivisionError": ZeroDivisionError, "OverflowError": OverflowError,
               "KeyError": KeyError, "TypeError": TypeError, "UserError": UserError, "StopIteration": StopIteration,
               "IndexError": IndexError}[fd["exc"]]

        def failing(r):
            if r > edge:
                raise exc("model function undefined beyond %s" % fmt_num(edge))
            return base(r)
        return failing
    raise ValueError("unknown FDesc kind %r" % (k,))


class ApiTarget(object):
    """Uniform .write(fp) over tabulation classes and procedural writer functions."""

    def __init__(self, spec, sim, instrument=True):
        from atsim.potentials import Potential, EAMPotential
        from .seams import EvalPoint
        self.spec = spec

        def wrap(fd, role):
            f = build_callable(fd)
            return EvalPoint(f, role, sim) if instrument else f

        self.pairs = [Potential(p["a"], p["b"], wrap(p["f"], "pair:%s-%s" % (p["a"], p["b"]))) for p in spec["pairs"]]
        self.eam = []
        for e in spec["eam"]:
            d = e["density"]
            if isinstance(d, dict) and "k" not in d:
                dens = {t: wrap(d[t], "dens:%s->%s" % (e["species"], t)) for t in sorted(d)}
            else:
                dens = wrap(d, "dens:%s" % e["species"])
            self.eam.append(EAMPotential(e["species"], e["Z"], e["mass"], wrap(e["embed"], "embed:%s" % e["species"]), dens))
        self.dipole = [Potential(p["a"], p["b"], wrap(p["f"], "dipole:%s-%s" % (p["a"], p["b"]))) for p in spec["dipole"]]
        self.quadrupole = [Potential(p["a"], p["b"], wrap(p["f"], "quadrupole:%s-%s" % (p["a"], p["b"]))) for p in spec["quadrupole"]]
        self.obj = None
        w = spec["writer"]
        nr, cutoff, nrho, crho = spec["nr"], spec["cutoff"], spec["nrho"], spec["cutoff_rho"]
        from atsim.potentials import pair_tabulation as pt, eam_tabulation as et
        if not w.endswith("Tabulation"):
            pass
        elif w.endswith("PairTabulation"):
            self.obj = getattr(pt, w)(self.pairs, cutoff, nr)
        elif w == "ADP_EAMTabulation":
            self.obj = et.ADP_EAMTabulation(self.pairs, self.eam, self.dipole, self.quadrupole, cutoff, nr, crho, nrho)
        elif hasattr(et, w):
            self.obj = getattr(et, w)(self.pairs, self.eam, cutoff, nr, crho, nrho)

    # the same public names the tabulation classes use, so that harness code can address the functions uniformly
    @property
    def potentials(self):
        return self.pairs

    @property
    def eam_potentials(self):
        return self.eam

    @property
    def dipole_potentials(self):
        return self.dipole

    @property
    def quadrupole_potentials(self):
        return self.quadrupole

    @property
    def workbook(self):
        return self.obj.workbook

    def has_workbook(self):
        return self.obj is not None and hasattr(self.obj, "workbook")

    def open_fp(self, path):
        if self.obj is not None:
            return self.obj.open_fp(path)
        return open(path, "w")

    def write(self, fp):
        import atsim.potentials as ap
        s = self.spec
        w = s["writer"]
        if self.obj is not None:
            return self.obj.write(fp)
        nr, cutoff, nrho, crho = s["nr"], s["cutoff"], s["nrho"], s["cutoff_rho"]
        dr = cutoff / float(nr - 1)
        drho = crho / float(nrho - 1)
        if w.startswith("writePotentials:"):
            return ap.writePotentials(w.split(":")[1], self.pairs, cutoff, nr, fp)
        if w == "writeSetFL":
            return ap.writeSetFL(nrho, drho, nr, dr, self.eam, self.pairs, out=fp, comments=["api", "route", ""])
        if w == "writeSetFLFinnisSinclair":
            return ap.writeSetFLFinnisSinclair(nrho, drho, nr, dr, self.eam, self.pairs, out=fp)
        if w == "writeTABEAM":
            return ap.writeTABEAM(nrho, drho, nr, dr, self.eam, self.pairs, out=fp, title="api route")
        if w == "writeTABEAMFinnisSinclair":
            return ap.writeTABEAMFinnisSinclair(nrho, drho, nr, dr, self.eam, self.pairs, out=fp)
        if w == "writeFuncFL":
            return ap.writeFuncFL(nrho, drho, nr, dr, self.eam, self.pairs, out=fp, title="api route")
        raise ValueError("unknown writer %r" % (w,))
