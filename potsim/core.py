"""Driver core: seeds, fork-per-run isolation, worker pool, replays, known findings, evidence."""
import concurrent.futures
import faulthandler
import json
import multiprocessing
import os
import select
import shutil
import signal
import sys
import tempfile
import time
import traceback

from .util import mix64, cjson  # noqa

VERIF_DIR = os.path.dirname(os.path.dirname(os.path.abspath(__file__)))
DEFAULT_SEED = {"quick": 20261004, "thorough": 20261004}
GUARD_ENV = "ATSIM_POTENTIALS_VERIF"


# ----------------------------------------------------------------------------------------------
# environment
# ----------------------------------------------------------------------------------------------

def get_seed(tier):
    v = os.environ.get("VERIF_SEED")
    if v is None or v == "":
        return DEFAULT_SEED.get(tier, 1)
    try:
        return int(v)
    except ValueError:
        return mix64("seed", v) & 0x7FFFFFFF


def run_seed(base, prop, i):
    return mix64(base, prop, i) & 0x7FFFFFFFFFFF


def ensure_env():
    """Re-exec with PYTHONHASHSEED=0 (dict/set order of str keys is then a function of the code)."""
    if os.environ.get("PYTHONHASHSEED") != "0" and not os.environ.get("POTSIM_KEEP_HASHSEED"):
        env = dict(os.environ)
        env["PYTHONHASHSEED"] = "0"
        os.execve(sys.executable, [sys.executable] + sys.argv, env)


def repo_dir():
    return os.environ.get("POTSIM_REPO", "/repo")


_pointed = False


def point_atsim_at_repo():
    """Make `import atsim.potentials` resolve to repo_dir() (the editable install points at /repo)."""
    global _pointed
    if _pointed:
        return
    _pointed = True
    os.environ.setdefault(GUARD_ENV, "1")
    rd = os.path.abspath(repo_dir())
    want = os.path.join(rd, "atsim")
    if "atsim.potentials" in sys.modules:
        got = os.path.dirname(os.path.dirname(sys.modules["atsim.potentials"].__file__))
        if os.path.abspath(got) != want:
            raise RuntimeError("atsim.potentials already imported from %s, wanted %s" % (got, want))
        return
    import types
    m = sys.modules.get("atsim")
    if m is None:
        m = types.ModuleType("atsim")
        sys.modules["atsim"] = m
    m.__path__ = [want]
    for f in list(sys.meta_path):
        mod = sys.modules.get(getattr(f, "__module__", "") or "")
        mp = getattr(mod, "MAPPING", None)
        if isinstance(mp, dict) and "atsim" in mp:
            mp["atsim"] = want
    import warnings
    warnings.simplefilter("ignore")
    # dependencies first (they keep the real datetime classes), then virtual time, then the repository
    import zipfile  # noqa
    import openpyxl  # noqa
    import openpyxl.writer.excel  # noqa
    import openpyxl.packaging.core  # noqa
    import scipy.interpolate  # noqa
    from .seams import install_global_clock
    install_global_clock()
    import atsim.potentials  # noqa
    got = os.path.dirname(os.path.dirname(os.path.abspath(atsim.potentials.__file__)))
    if got != want:
        raise RuntimeError("atsim.potentials resolved to %s, wanted %s" % (got, want))


def preload():
    """Import the heavy modules once in a worker, before forking children."""
    point_atsim_at_repo()
    import logging
    logging.disable(logging.CRITICAL)
    import atsim.potentials.config  # noqa
    import atsim.potentials.tools.potable  # noqa
    import openpyxl  # noqa
    import openpyxl.writer.excel  # noqa
    import openpyxl.packaging.core  # noqa
    import scipy.interpolate  # noqa
    import zipfile  # noqa


_scratch_root = None


def scratch_root():
    """Per-check scratch directory on tmpfs (removed by cleanup())."""
    global _scratch_root
    if _scratch_root is None:
        base = os.environ.get("POTSIM_SCRATCH")
        if base is None:
            base = "/dev/shm" if os.path.isdir("/dev/shm") and os.access("/dev/shm", os.W_OK) else tempfile.gettempdir()
        _scratch_root = tempfile.mkdtemp(prefix="potsim-%d-" % os.getpid(), dir=base)
    return _scratch_root


def cleanup():
    global _scratch_root
    if _scratch_root and os.path.isdir(_scratch_root):
        shutil.rmtree(_scratch_root, ignore_errors=True)
    _scratch_root = None


# ----------------------------------------------------------------------------------------------
# fork-per-run
# ----------------------------------------------------------------------------------------------

def run_in_child(fn, arg, timeout=60.0, scratch=None):
    """Execute fn(arg) in a freshly forked child; returns its JSON-able result or
    {"harness_error": ...}.  The child never outlives `timeout`."""
    r, w = os.pipe()
    sys.stdout.flush()
    sys.stderr.flush()
    pid = os.fork()
    if pid == 0:
        code = 0
        try:
            os.close(r)
            try:
                faulthandler.enable()
                faulthandler.dump_traceback_later(max(1.0, timeout - 0.5), exit=True)
            except Exception:
                pass
            if scratch:
                d = tempfile.mkdtemp(prefix="run-", dir=scratch)
                tempfile.tempdir = d
                os.environ["TMPDIR"] = d
            try:
                res = fn(arg)
            except BaseException:
                res = {"harness_error": "exception in child: " + traceback.format_exc()[-3000:]}
            data = cjson(res).encode("utf-8")
            with os.fdopen(w, "wb") as f:
                f.write(data)
        except BaseException:
            code = 3
        finally:
            os._exit(code)
    os.close(w)
    chunks = []
    deadline = time.monotonic() + timeout
    timed_out = False
    while True:
        left = deadline - time.monotonic()
        if left <= 0:
            timed_out = True
            break
        rl, _, _ = select.select([r], [], [], min(left, 1.0))
        if rl:
            b = os.read(r, 1 << 16)
            if not b:
                break
            chunks.append(b)
    os.close(r)
    if timed_out:
        try:
            os.kill(pid, signal.SIGKILL)
        except OSError:
            pass
    try:
        _, status = os.waitpid(pid, 0)
    except ChildProcessError:
        status = 0
    if timed_out:
        return {"harness_error": "child timed out after %.0fs" % timeout}
    raw = b"".join(chunks)
    if not raw:
        return {"harness_error": "child produced no result (status %r)" % (status,)}
    try:
        return json.loads(raw.decode("utf-8"))
    except Exception as e:
        return {"harness_error": "unparseable child result: %r" % (e,)}


def _worker_init():
    try:
        preload()
    except BaseException:
        traceback.print_exc()
        raise


def parallel_map(fn, items, workers=None, chunk_timeout=None):
    """Map fn over items on a fork pool (fn runs in a preloaded worker and is expected to use
    run_in_child itself).  Yields (item_index, result) in completion order."""
    workers = workers or int(os.environ.get("POTSIM_WORKERS", "0")) or min(16, os.cpu_count() or 1)
    if workers <= 1:
        _worker_init()
        for i, it in enumerate(items):
            yield i, fn(it)
        return
    ctx = multiprocessing.get_context("fork")
    with concurrent.futures.ProcessPoolExecutor(max_workers=workers, mp_context=ctx, initializer=_worker_init) as ex:
        futs = {ex.submit(fn, it): i for i, it in enumerate(items)}
        for f in concurrent.futures.as_completed(futs):
            i = futs[f]
            try:
                yield i, f.result(timeout=chunk_timeout)
            except BaseException as e:
                yield i, {"harness_error": "worker failure: %r" % (e,)}


# ----------------------------------------------------------------------------------------------
# known findings, replays, evidence
# ----------------------------------------------------------------------------------------------

def load_known_findings():
    p = os.path.join(VERIF_DIR, "known_findings.json")
    if not os.path.exists(p):
        return []
    with open(p) as f:
        return json.load(f).get("findings", [])


def match_known(findings, prop, vclass):
    """Return the 'known' finding entry matching this violation class, if any."""
    import fnmatch
    for e in findings:
        if e.get("property") != prop or e.get("status") != "known":
            continue
        if fnmatch.fnmatchcase(vclass, e.get("class", "")):
            return e
    return None


def write_replay(prop, seed, scenario, violation):
    d = os.path.join(VERIF_DIR, "replays")
    os.makedirs(d, exist_ok=True)
    path = os.path.join(d, "%s-%s.json" % (prop, seed))
    doc = {"property": prop, "seed": seed, "potsim": 1, "scenario": scenario, "violation": violation}
    with open(path, "w") as f:
        json.dump(doc, f, indent=1, sort_keys=True)
    return path


def write_evidence(prop, tier, seed, level, coverage, wall_s, violations, assumptions):
    d = os.path.join(VERIF_DIR, "evidence")
    os.makedirs(d, exist_ok=True)
    doc = {"property_id": prop, "tier": tier, "seed": int(seed), "level": level, "coverage": coverage,
           "assumptions": assumptions, "wall_s": round(wall_s, 2), "violations": int(violations)}
    tmp = os.path.join(d, ".%s.json.tmp" % prop)
    with open(tmp, "w") as f:
        json.dump(doc, f, indent=1, sort_keys=True)
    os.replace(tmp, os.path.join(d, "%s.json" % prop))


class Budget(object):
    def __init__(self, seconds):
        self.t0 = time.monotonic()
        self.seconds = seconds

    def left(self):
        return self.seconds - (time.monotonic() - self.t0)

    def spent(self):
        return time.monotonic() - self.t0
