"""C17 - a failed tabulation never leaves a partial table behind.

Crash-point sweep: for a generated model, every evaluation index k of a fault-free write is a
crash point; the simulator makes evaluation k fail (or lets a formula fail by itself) and checks
that write()/potable emitted the whole table or nothing, including on retries with the same object.
"""
import base64
import copy
import io
import os
import random
import sys

from . import modelgen as mg
from .seams import (Sim, SimClock, SimFile, RewindableSimFile, SeekLiarSimFile, WriteOnlySimFile, instrument_tabulation,
                    FAULT_KINDS, fp_bytes, HarnessError)
from .util import sha, mix64, short

PROP = "C17"
SENTINEL = b"# old table left over from an earlier tabulation\nspline cubic\nA B 1.0\n0.0 0.0\n"


# ----------------------------------------------------------------------------------------------
# scenario generation
# ----------------------------------------------------------------------------------------------

def gen_base_scenario(seed, tier="quick"):
    rng = random.Random(seed)
    natural = rng.random() < 0.18
    opts = {"natural_fault_prob": 1.0 if natural else 0.0,
            "nr_max": 24 if tier == "thorough" else 16,
            "nrho_max": 12 if tier == "thorough" else 8}
    size_r = rng.random()
    big = (not natural) and size_r < 0.04
    medium = (not natural) and 0.04 <= size_r < 0.09
    if medium:
        # medium tables (hundreds to thousands of rows): thresholds counted in lines or in a few tens of KB
        import math
        opts["nr_fixed"] = int(math.exp(rng.uniform(math.log(100), math.log(5000))))
        opts["nrho_fixed"] = int(math.exp(rng.uniform(math.log(100), math.log(5000))))
        opts["targets"] = [t for t in mg.ALL_TARGETS if t not in mg.BINARY_TARGETS]
        opts["max_species"] = 3
    if big:
        # large-table sub-batch: output sizes from tens of KB to several MB, so that behaviour which
        # depends on how much has been buffered (flush thresholds, chunking) is reached as well
        import math
        lo = 1500 if rng.random() < 0.3 else 6000
        opts["nr_fixed"] = int(math.exp(rng.uniform(math.log(lo), math.log(40000))))
        opts["nrho_fixed"] = int(math.exp(rng.uniform(math.log(lo), math.log(40000))))
        opts["min_species"] = 2
        opts["targets"] = [t for t in mg.ALL_TARGETS if t not in mg.BINARY_TARGETS]
        opts["max_species"] = 3
        opts["underspecified_prob"] = 0.0
    if rng.random() < 0.22 and not big and not medium:
        from . import apimodel
        spec = apimodel.gen_api_model(rng, natural=natural, tier=tier)
        sc_api = {"property": PROP, "seed": seed, "tier": tier, "potsim": 1, "model": spec, "route": "api",
                "fp_kind": rng.choice(["simfile", "simfile", "stdio", "realfile"]), "shared_fp": rng.random() < 0.25,
                "prepopulate": False, "cli_target_override": False,
                "instrument": True if not natural else rng.random() < 0.6,
                "natural": bool(spec["meta"]["natural_fault"]), "subprocess_cli": False, "attempts": [{"k": None}]}
        return _other_destinations(sc_api, seed)
    spec = mg.gen_model(rng, opts)
    target = spec["meta"]["target"]
    r = rng.random()
    if natural:
        r = r * 0.6 + 0.3          # natural failures: mostly through potable
    if r < 0.55:
        route = "object"
    elif r < 0.85:
        route = "cli"
    elif target in ("LAMMPS", "DLPOLY", "GULP"):
        route = "writePotentials"
    else:
        route = "object"
    sc = {"property": PROP, "seed": seed, "tier": tier, "potsim": 1,
          "model": spec, "route": route,
          "fp_kind": rng.choice(["simfile", "simfile", "stdio", "realfile"]),
          "shared_fp": rng.random() < 0.25,
          "prepopulate": rng.random() < 0.5,
          "cli_target_override": rng.random() < 0.2,
          "instrument": True if not natural else rng.random() < 0.6,
          "natural": bool(spec["meta"]["natural_fault"]),
          "subprocess_cli": natural and route == "cli" and rng.random() < 0.6,
          "attempts": [{"k": None}]}
    if route == "cli":
        sc["shared_fp"] = False
    if big:
        sc["big"] = True
    if medium:
        sc["big"] = True
        sc["medium"] = True
    return _other_destinations(sc, seed)


OTHER_FP_KINDS = ["gzip", "seekliar", "rewindable", "writeonly"]


def _other_destinations(sc, seed):
    """15 % of the text-target scenarios that call write(fp) get a destination with other capabilities: a real
    gzip text stream, a stream that claims to be seekable but cannot be wound back, one that honestly can, one
    that offers write() only.  Drawn from a side stream (the other choices of the scenario are unchanged)."""
    side = random.Random(mix64(seed, "c17-destinations"))
    if sc["route"] == "cli" or sc["model"]["meta"]["binary"] or side.random() >= 0.15:
        return sc
    sc["fp_kind"] = side.choice(OTHER_FP_KINDS)
    if sc["fp_kind"] == "gzip":
        sc["shared_fp"] = False
    return sc


def plan_for_k(base, k, N):
    """Fault plan for crash point k: 1-3 attempts with at most one failing evaluation each,
    ending with a fault-free attempt.  Deterministic in (seed, k)."""
    rng = random.Random(mix64(base["seed"], "plan", k))
    sc = copy.deepcopy(base)
    kind = rng.choice(FAULT_KINDS)
    if random.Random(mix64(base["seed"], "bad-value", k)).random() < 0.12:
        kind = "returns-complex"     # side stream: the evaluation returns a non-real value instead of raising
    attempts = [{"k": k, "kind": kind}]
    if base["model"]["meta"]["binary"] and base["route"] in ("object", "api") and rng.random() < 0.3:
        attempts[0]["op"] = "touch"          # the failing evaluation happens while reading .workbook
    r = rng.random()
    if r < 0.35:
        # a second failing attempt at another (or the same) position
        k2 = rng.choice([k, 1, N, rng.randint(1, N)])
        attempts.append({"k": k2, "kind": rng.choice(FAULT_KINDS)})
    elif r < 0.45:
        attempts.insert(0, {"k": None})      # a good write first, then the failing one
    attempts.append({"k": None})
    sc["attempts"] = attempts
    sc["k"] = k
    return sc


def choose_ks(base, N, roles, tier, rng):
    if N <= 0:
        return []
    if base.get("big"):
        # too many evaluations to sweep: last, next-to-last, first, block boundaries near the end and a few late points
        ks = {1, N, max(1, N - 1), rng.randint(max(1, N // 2), N), rng.randint(max(1, (9 * N) // 10), N)}
        bnd = [i for i in range(1, N) if roles[i] != roles[i - 1]]
        for i in bnd[-2:]:
            ks.update([i, i + 1])
        if base.get("medium"):
            ks.update(rng.randint(1, N) for _ in range(6))
            for i in bnd[:6]:
                ks.update([i, i + 1])
            return sorted(ks)[:14] if tier == "quick" else sorted(ks)
        return sorted(ks)[:8] if tier == "quick" else sorted(ks)
    if tier == "thorough":
        return list(range(1, N + 1))
    ks = {1, N}
    for i in range(1, N):
        if _block(roles[i]) != _block(roles[i - 1]):
            ks.add(i)       # last evaluation of a block (1-based index i)
            ks.add(i + 1)   # first of the next
    interior = list(range(2, N))
    rng.shuffle(interior)
    bnd = sorted(ks)
    if len(bnd) > 14:
        keep = {1, N}
        rest = [x for x in bnd if x not in keep]
        rng.shuffle(rest)
        ks = keep | set(rest[:12])
    ks |= set(interior[:6])
    return sorted(ks)


def _block(role):
    # role like "pair:A-B", "pair:A-B/deriv", "embed:Al", "dens:A->B", "dipole:..."
    return role


# ----------------------------------------------------------------------------------------------
# execution (inside a forked child)
# ----------------------------------------------------------------------------------------------

def _file_state(path):
    if not os.path.exists(path):
        return {"state": "absent", "len": 0, "sha": None}
    with open(path, "rb") as f:
        b = f.read()
    return {"state": "empty" if not b else "bytes", "len": len(b), "sha": sha(b), "head": _head(b), "_bytes": b}


def _head(b, n=160):
    try:
        return b[:n].decode("utf-8", "replace")
    except Exception:
        return repr(b[:n])


def execute(sc, reference=False):
    """Run one C17 scenario in this (child) process.  reference=True: no faults, one attempt,
    record the role of every evaluation."""
    from .core import point_atsim_at_repo
    point_atsim_at_repo()
    import tempfile
    import logging
    logging.disable(logging.CRITICAL)
    spec = sc["model"]
    meta = spec["meta"]
    binary = meta["binary"]
    attempts = [{"k": None}] if reference else sc["attempts"]
    faults = {}
    for i, a in enumerate(attempts):
        if a.get("k") is not None:
            faults[(0, i)] = {int(a["k"]): a.get("kind", "ValueError")}
    clock = SimClock(sc.get("clock_start", 1700000000.0)).install()
    sim = Sim(faults=faults, clock=clock)
    sim.record_roles = True
    out = {"attempts": [], "build_error": None}
    ini = None if spec.get("api") else mg.render_ini(spec)
    scratch = tempfile.mkdtemp(prefix="c17-")
    try:
        if sc["route"] == "cli":
            _exec_cli(sc, sim, ini, scratch, attempts, out)
        else:
            _exec_object(sc, sim, ini, scratch, attempts, out, binary)
    finally:
        clock.uninstall()
    out["events_digest"] = sim.events_digest()
    out["n_events"] = sim.n_events
    if reference:
        out["roles"] = sim.eval_roles.get((0, 0), [])
    out["fired"] = [list(x) for x in sim.fired]
    return out


def _exec_object(sc, sim, ini, scratch, attempts, out, binary):
    from atsim.potentials.config import Configuration
    import atsim.potentials
    try:
        if sc["route"] == "api":
            from .apimodel import ApiTarget
            tab = ApiTarget(sc["model"], sim, instrument=sc.get("instrument", True))
        else:
            tab = Configuration().read(io.StringIO(ini))
    except Exception as e:
        out["build_error"] = "%s: %s" % (type(e).__name__, str(e)[:300])
        return
    if sc.get("instrument", True) and sc["route"] != "api":
        instrument_tabulation(tab, sim)
    fp_kind = sc.get("fp_kind", "simfile")
    shared = None
    for i, a in enumerate(attempts):
        sim.begin_op(i)
        rec = {"raised": None, "exit": None}
        if a.get("op") == "touch":
            try:
                tab.workbook
            except Exception as e:
                rec["raised"] = type(e).__name__
                rec["message"] = str(e)[:200]
            rec["touch"] = True
            _record(rec, b"", b"", sim)
            out["attempts"].append(rec)
            continue
        path = os.path.join(scratch, "out-%d" % (0 if sc.get("shared_fp") else i))
        if sc.get("shared_fp") and shared is not None:
            fp = shared
        elif fp_kind == "realfile":
            fp = tab.open_fp(path)
        elif fp_kind == "stdio":
            fp = io.BytesIO() if binary else io.StringIO()
        elif fp_kind == "gzip":
            import gzip
            fp = gzip.open(path, "wt", encoding="utf-8", newline="")
        elif fp_kind == "seekliar":
            fp = SeekLiarSimFile(sim, binary=binary, name="fp%d" % i)
        elif fp_kind == "rewindable":
            fp = RewindableSimFile(sim, binary=binary, name="fp%d" % i)
        elif fp_kind == "writeonly":
            fp = WriteOnlySimFile(SimFile(sim, binary=binary, name="fp%d" % i))
        else:
            fp = SimFile(sim, binary=binary, name="fp%d" % i)
        if sc.get("shared_fp"):
            shared = fp
        before = b"" if fp_kind == "gzip" else _current_bytes(fp, fp_kind, path)
        try:
            if sc["route"] == "writePotentials":
                ot = {"LAMMPS": "LAMMPS", "DLPOLY": "DL_POLY", "GULP": "GULP"}[sc["model"]["meta"]["target"]]
                atsim.potentials.writePotentials(ot, tab.potentials, tab.cutoff, tab.nr, fp)
            else:
                tab.write(fp)
        except Exception as e:
            rec["raised"] = type(e).__name__
            rec["message"] = str(e)[:200]
        if fp_kind == "gzip":
            import gzip
            try:
                fp.close()
            except Exception:
                pass
            with gzip.open(path, "rb") as gz:
                after = gz.read()
        else:
            after = _current_bytes(fp, fp_kind, path)
        if fp_kind == "realfile" and not sc.get("shared_fp"):
            fp.close()
            after = _current_bytes(fp, fp_kind, path)
        _record(rec, before, after, sim)
        out["attempts"].append(rec)
    if fp_kind == "realfile" and shared is not None:
        shared.close()


def _current_bytes(fp, fp_kind, path):
    if fp_kind == "realfile":
        try:
            fp.flush()
        except Exception:
            pass
        with open(path, "rb") as f:
            return f.read()
    return fp_bytes(fp)


def _record(rec, before, after, sim):
    t = sim.current
    rec["n_evals"] = t.op_evals
    rec["before_len"] = len(before)
    rec["after_len"] = len(after)
    rec["prefix_kept"] = after[:len(before)] == before
    delta = after[len(before):] if rec["prefix_kept"] else after
    rec["delta_len"] = len(delta)
    rec["delta_sha"] = sha(delta)
    rec["delta_head"] = _head(delta)
    rec["fired"] = [list(f) for f in sim.fired if f[1] == t.op_index]
    if delta[:2] == b"PK":
        from .c12 import xlsx_describe
        rec["xlsx"] = xlsx_describe(delta)        # sheet -> rows/cols/cell digest, for a readable diagnosis


def _exec_cli(sc, sim, ini, scratch, attempts, out):
    from atsim.potentials.tools import potable
    from atsim.potentials.config import Configuration
    in_path = os.path.join(scratch, "model.aspot")
    out_path = os.path.join(scratch, "table.out")
    with open(in_path, "w") as f:
        f.write(ini)
    if sc.get("prepopulate"):
        with open(out_path, "wb") as f:
            f.write(SENTINEL)
    argv = ["potable", in_path, out_path]
    if sc.get("cli_target_override"):
        # same target given again on the command line: exercises the override path
        tgt = None
        for s in sc["model"]["sections"]:
            if s["name"] == "Tabulation":
                for k, v in s["entries"]:
                    if k == "target":
                        tgt = v
        argv += ["-e", "Tabulation:target=%s" % tgt]
    orig = Configuration.read_from_parser
    instrument = sc.get("instrument", True)

    def patched(self, cp):
        tab = orig(self, cp)
        if instrument:
            instrument_tabulation(tab, sim)
        return tab

    for i, a in enumerate(attempts):
        sim.begin_op(i)
        rec = {"raised": None, "exit": None}
        st0 = _file_state(out_path)
        before = st0.pop("_bytes", b"")
        old = (sys.argv, sys.stdout, sys.stderr)
        sys.argv = list(argv)
        sys.stdout = io.StringIO()
        sys.stderr = io.StringIO()
        Configuration.read_from_parser = patched
        try:
            potable.main()
            rec["exit"] = 0
        except SystemExit as e:
            rec["exit"] = e.code if isinstance(e.code, int) else (0 if e.code is None else 1)
            rec["stderr"] = sys.stderr.getvalue()[-200:]
        except Exception as e:
            rec["raised"] = type(e).__name__
            rec["message"] = str(e)[:200]
        finally:
            Configuration.read_from_parser = orig
            sys.argv, sys.stdout, sys.stderr = old
        st1 = _file_state(out_path)
        after = st1.pop("_bytes", b"")
        rec["file_before"] = st0
        rec["file_after"] = st1
        t = sim.current
        rec["n_evals"] = t.op_evals
        rec["before_len"] = len(before)
        rec["after_len"] = len(after)
        rec["prefix_kept"] = False
        rec["delta_len"] = len(after)
        rec["delta_sha"] = sha(after)
        rec["delta_head"] = _head(after)
        rec["unchanged"] = (st0["state"] == st1["state"] and st0.get("sha") == st1.get("sha"))
        rec["fired"] = [list(f) for f in sim.fired if f[1] == t.op_index]
        out["attempts"].append(rec)


def execute_subprocess_cli(sc):
    """Run the natural-fault CLI scenario as a true subprocess (no harness code in the tool)."""
    import subprocess
    import tempfile
    scratch = tempfile.mkdtemp(prefix="c17sp-")
    ini = mg.render_ini(sc["model"])
    in_path = os.path.join(scratch, "model.aspot")
    out_path = os.path.join(scratch, "table.out")
    with open(in_path, "w") as f:
        f.write(ini)
    if sc.get("prepopulate"):
        with open(out_path, "wb") as f:
            f.write(SENTINEL)
    from .core import repo_dir, VERIF_DIR
    env = dict(os.environ)
    env["PYTHONPATH"] = VERIF_DIR
    env["POTSIM_REPO"] = repo_dir()
    p = subprocess.run([sys.executable, "-W", "ignore", "-m", "potsim.launch", "potable", in_path, out_path],
                       env=env, stdout=subprocess.PIPE, stderr=subprocess.PIPE, timeout=60)
    st = _file_state(out_path)
    st.pop("_bytes", None)
    return {"exit": p.returncode, "file_after": st, "stderr_tail": p.stderr.decode("utf-8", "replace")[-300:]}


# ----------------------------------------------------------------------------------------------
# oracle
# ----------------------------------------------------------------------------------------------

def site_of(role):
    if not role:
        return "unknown"
    return role.split(":", 1)[0]


def judge(sc, ref, res):
    """Compare a run with its fault-free reference.  Returns list of violations
    [{"class":..., "detail":...}] (empty = property held)."""
    v = []
    meta = sc["model"]["meta"]
    target = meta["target"]
    route = sc["route"]
    base_cls = "target=%s/route=%s" % (target, route)
    if res.get("harness_error"):
        return [{"class": "HARNESS", "detail": res["harness_error"]}]
    if res.get("build_error"):
        if ref.get("build_error"):
            return []
        return [{"class": "HARNESS", "detail": "model built in reference but not in run: %s" % res["build_error"]}]
    ref_a = ref["attempts"][0]
    ref_sha, ref_len = ref_a["delta_sha"], ref_a["delta_len"]
    natural = sc.get("natural")
    for i, (a, r) in enumerate(zip(sc["attempts"], res["attempts"])):
        fired = bool(r.get("fired"))
        failed = r["raised"] is not None or (r["exit"] not in (None, 0))
        role = r["fired"][0][4] if fired else None
        site = site_of(role)
        if natural:
            fired = failed          # a formula failing by itself is seen through the failure only
            site = (meta.get("natural_fault") or {}).get("section", "unknown")
        where = "%s/site=%s" % (base_cls, site)
        if fired and not natural and not failed and r["fired"][0][3] == "returns-complex":
            # a returned non-real value is a failure only if the writer could not use it; where it could
            # (nothing raised) no evaluation failed and the statement says nothing about this attempt
            continue
        if r.get("touch"):
            if failed and not fired:
                v.append({"class": "C17/failure-without-fault/" + where, "attempt": i,
                          "detail": ".workbook raised %s (%s) although no fault fired" % (r["raised"], r.get("message"))})
            continue
        if route == "cli":
            fa = r["file_after"]
            whole = fa["state"] == "bytes" and fa["sha"] == ref_sha and fa["len"] == ref_len
            if fired:
                acceptable = fa["state"] in ("absent", "empty") or (r.get("unchanged") and _was_whole_or_sentinel(r, ref_sha))
                if not failed:
                    if not whole:
                        v.append({"class": "C17/fault-swallowed/" + where, "attempt": i,
                                  "detail": "evaluation %s failed but potable exited 0; file: %s" % (r["fired"], _fs(fa))})
                elif not acceptable:
                    v.append({"class": "C17/partial-output-on-fault/" + where, "attempt": i,
                              "detail": "potable failed (%s) and left %d bytes in the output file (whole table is %d bytes): %r"
                                        % (r["raised"] or ("exit %s" % r["exit"]), fa["len"], ref_len, fa.get("head", "")[:80])})
            else:
                if failed:
                    if not natural:
                        v.append({"class": "C17/failure-without-fault/" + where, "attempt": i,
                                  "detail": "potable failed (%s %s) although no fault fired" % (r["raised"], r.get("message"))})
                elif not whole and not natural:
                    v.append({"class": "C17/retry-differs-from-reference/" + where, "attempt": i,
                              "detail": "fault-free potable run wrote %s, reference table is %d bytes sha %s" % (_fs(fa), ref_len, ref_sha[:12])})
        else:
            whole = r["prefix_kept"] and r["delta_sha"] == ref_sha and r["delta_len"] == ref_len
            nothing = r["prefix_kept"] and r["delta_len"] == 0
            if fired:
                if not failed:
                    if not whole:
                        v.append({"class": "C17/fault-swallowed/" + where, "attempt": i,
                                  "detail": "evaluation %s failed but write() returned normally having emitted %d bytes (whole table is %d)"
                                            % (r["fired"], r["delta_len"], ref_len)})
                elif not nothing:
                    v.append({"class": "C17/partial-output-on-fault/" + where, "attempt": i,
                              "detail": "write() raised %s after emitting %d bytes (whole table is %d bytes): %r"
                                        % (r["raised"], r["delta_len"], ref_len, r["delta_head"][:80])})
            else:
                if failed:
                    if not natural:
                        v.append({"class": "C17/failure-without-fault/" + where, "attempt": i,
                                  "detail": "write() raised %s (%s) although no fault fired" % (r["raised"], r.get("message"))})
                elif not whole and not natural:
                    prev_faults = any(x.get("fired") for x in res["attempts"][:i])
                    cls = "retry-differs-from-reference" if prev_faults else "write-differs-from-reference"
                    xl = ""
                    if r.get("xlsx") or ref_a.get("xlsx"):
                        xl = " ; sheets here: %s ; sheets in the reference: %s" % (_sheets(r.get("xlsx")), _sheets(ref_a.get("xlsx")))
                    v.append({"class": "C17/%s/%s" % (cls, where if prev_faults else base_cls + "/site=none"), "attempt": i,
                              "detail": "write() returned normally but emitted %d bytes sha %s; reference table is %d bytes sha %s (after %s earlier failed attempt(s))%s"
                                        % (r["delta_len"], r["delta_sha"][:12], ref_len, ref_sha[:12], sum(1 for x in res["attempts"][:i] if x.get("fired")), xl)})
    if natural and ref.get("attempts"):
        # determinism of the natural outcome between the two children
        for i, (r0, r1) in enumerate(zip(ref["attempts"], res["attempts"][:1])):
            if (r0["raised"], r0["exit"]) != (r1["raised"], r1["exit"]):
                v.append({"class": "HARNESS", "detail": "natural-fault outcome differs between children: %r vs %r" % (r0, r1)})
    # for retry site classification use the site of the earlier fault
    for x in v:
        if "retry-differs" in x["class"] and "site=None" in x["class"]:
            x["class"] = x["class"].replace("site=None", "site=unknown")
    return v


def _sheets(x):
    if not x:
        return "n/a"
    if "error" in x:
        return x["error"]
    return ", ".join("%s %dx%d [%s]" % (k, v["rows"], v["cols"], v["cells"]) for k, v in sorted(x.items()))


def _was_whole_or_sentinel(r, ref_sha):
    fb = r["file_before"]
    if fb["state"] != "bytes":
        return True
    return fb["sha"] == sha(SENTINEL) or fb["sha"] == ref_sha


def _fs(fa):
    return "%s(%d bytes)" % (fa["state"], fa["len"])


def retry_site_fix(sc, res, violations):
    """A retry-differs violation is classified by the site of the *earlier* fault."""
    for x in violations:
        if "retry-differs-from-reference" in x["class"] and x["class"].endswith("site=unknown"):
            i = x.get("attempt", 0)
            for prev in reversed(res["attempts"][:i]):
                if prev.get("fired"):
                    x["class"] = x["class"][:-len("unknown")] + site_of(prev["fired"][0][4])
                    break
    return violations


# ----------------------------------------------------------------------------------------------
# jobs (run inside pool workers; every scenario executes in its own forked child)
# ----------------------------------------------------------------------------------------------

LEVEL = "fault_enumeration"
QUICK_JOBS = 320
THOROUGH_JOBS = 4000
RULE = ("one case = (generated model, target, route, crash point k, exception kind, retry plan); models, targets, routes, "
        "grids, exception kinds and retry plans are drawn from the seed; for each model the fault-free write is measured "
        "first (N evaluations) and then quick: first/last/both sides of every function-block boundary + 6 seeded interior k, "
        "thorough: every k in 1..N, each in its own forked child. non-trivial = the injected (or natural) failure actually "
        "fired inside a write/potable run, i.e. after the first evaluation began and before the last returned; distinct = "
        "digest of (model, route, options, attempts plan).")


def _child_ref(sc):
    return execute(sc, reference=True)


def _child_run(sc):
    return execute(sc, reference=False)


def child(fn, sc, scratch, timeout=120.0):
    from .core import run_in_child
    res = run_in_child(fn, sc, timeout=timeout, scratch=scratch)
    if res.get("harness_error") and "timed out" in res["harness_error"]:
        res = run_in_child(fn, sc, timeout=timeout * 2, scratch=scratch)   # one retry for load spikes
    return res


def scenario_key(sc):
    return short({"m": sc["model"].get("sections") or {k: v for k, v in sc["model"].items() if k != "meta"}, "r": sc["route"], "a": sc["attempts"], "fp": sc.get("fp_kind"),
                  "sh": sc.get("shared_fp"), "pp": sc.get("prepopulate")}, 16)


def run_scenario(sc, scratch, ref=None):
    """Reference + run + judge for one complete scenario (used by jobs, replay and minimiser)."""
    if ref is None:
        ref = child(_child_ref, sc, scratch)
    if ref.get("harness_error"):
        return ref, None, [{"class": "HARNESS", "detail": ref["harness_error"]}]
    res = child(_child_run, sc, scratch)
    if res.get("harness_error"):
        return ref, res, [{"class": "HARNESS", "detail": res["harness_error"]}]
    if ref.get("build_error") or not ref.get("attempts"):
        return ref, res, []
    v = judge(sc, ref, res)
    v = retry_site_fix(sc, res, v)
    return ref, res, v


def run_job(job):
    seed, tier, scratch = job["seed"], job["tier"], job["scratch"]
    st = {"runs": 0, "keys": [], "violations": [], "harness": [], "stats": {}, "samples": [], "evals": 0, "events": 0}

    def bump(name, n=1):
        st["stats"][name] = st["stats"].get(name, 0) + n

    base = gen_base_scenario(seed, tier)
    meta = base["model"]["meta"]
    ref = child(_child_ref, base, scratch)
    st["runs"] += 1
    if ref.get("harness_error"):
        st["harness"].append({"seed": seed, "detail": ref["harness_error"]})
        return st
    bump("models")
    bump("target=" + meta["target"])
    bump("route=" + base["route"])
    if base.get("medium"):
        bump("probe:medium-table-model")
    elif base.get("big"):
        bump("probe:large-table-model")
        if ref.get("attempts"):
            bump("large-table-bytes-total", ref["attempts"][0].get("delta_len", 0))
    if ref.get("build_error"):
        bump("invalid-model-build-error")
        st["invalid"] = ref["build_error"]
        return st
    ra = ref["attempts"][0]
    ref_failed = ra["raised"] is not None or ra["exit"] not in (None, 0)
    if ref_failed and not base["natural"]:
        # the generated model fails by itself (e.g. OverflowError at the tiny separations of a very fine grid):
        # that is a natural evaluation failure too - judge it as one instead of discarding the model
        base = copy.deepcopy(base)
        base["natural"] = True
        base["model"]["meta"]["natural_fault"] = {"label": "spontaneous-" + str(ra["raised"] or "exit"), "section": "unknown",
                                                    "exc": ra["raised"]}
        meta = base["model"]["meta"]
        bump("spontaneously-failing-models")
    if base["natural"]:
        sc = copy.deepcopy(base)
        sc["attempts"] = [{"k": None}, {"k": None}]
        _, res, v = run_scenario(sc, scratch, ref=ref)
        st["runs"] += 1
        bump("natural-scenarios")
        if ref_failed:
            bump("natural-fault-fired")
            bump("natural:" + (meta["natural_fault"] or {}).get("label", "?"))
            bump("site=" + (meta["natural_fault"] or {}).get("section", "?"))
            st["keys"].append(scenario_key(sc))
            if res and res.get("attempts"):
                st["evals"] += sum(a["n_evals"] for a in res["attempts"])
                if base["route"] == "cli":
                    bump("cli-file-after-fault=" + res["attempts"][0]["file_after"]["state"])
        else:
            bump("natural-fault-outside-grid")
        if sc.get("subprocess_cli") and ref_failed:
            sp = run_in_child_subprocess(sc, scratch)
            bump("subprocess-cli-runs")
            if sp.get("harness_error"):
                st["harness"].append({"seed": seed, "detail": sp["harness_error"]})
            else:
                inproc = res["attempts"][0]
                in_fail = inproc["raised"] is not None or inproc["exit"] not in (None, 0)
                sp_fail = sp["exit"] != 0
                if in_fail != sp_fail or inproc["file_after"]["state"] != sp["file_after"]["state"] or \
                        inproc["file_after"].get("sha") != sp["file_after"].get("sha"):
                    st["harness"].append({"seed": seed, "detail": "in-process potable and subprocess potable disagree: %r vs %r" % (inproc, sp)})
                elif sp_fail and sp["file_after"]["state"] == "bytes" and not (sc.get("prepopulate") and sp["file_after"]["sha"] == sha(SENTINEL)):
                    v = v or [{"class": "C17/partial-output-on-fault/target=%s/route=cli-subprocess/site=%s" % (
                        meta["target"], (meta["natural_fault"] or {}).get("section")), "detail": "subprocess potable left %r" % (sp,)}]
        for x in v:
            if x["class"] == "HARNESS":
                st["harness"].append({"seed": seed, "detail": x["detail"]})
            else:
                st["violations"].append(dict(x, scenario=sc))
        if len(st["samples"]) < 1:
            st["samples"].append(_sample(sc, res))
        return st
    if ref_failed:
        bump("invalid-model-reference-failed")
        st["invalid"] = "%s %s" % (ra["raised"], ra.get("message"))
        return st
    N = ra["n_evals"]
    roles = ref.get("roles", [])
    bump("N-total", N)
    rng = random.Random(mix64(seed, "ks"))
    ks = choose_ks(base, N, roles, tier, rng)
    if not ks:
        bump("models-without-evaluations")
    boundaries = set()
    for i in range(1, N):
        if roles[i] != roles[i - 1]:
            boundaries.add(i)
            boundaries.add(i + 1)
    for k in ks:
        sc = plan_for_k(base, k, N)
        _, res, v = run_scenario(sc, scratch, ref=ref)
        st["runs"] += 1
        if res is None or res.get("harness_error"):
            st["harness"].append({"seed": seed, "k": k, "detail": (res or ref).get("harness_error")})
            continue
        st["events"] += res.get("n_events", 0)
        st.setdefault("evdigs", []).append(res.get("events_digest", "")[:16] + short(res.get("attempts"), 8))
        any_fired = False
        for a, r in zip(sc["attempts"], res["attempts"]):
            st["evals"] += r["n_evals"]
            for f in r.get("fired", []):
                any_fired = True
                bump("fired:" + f[3])
                bump("site=" + site_of(f[4]))
                if f[3] == "returns-complex":
                    bump("probe:evaluation-returns-non-real-value")
                    if r["raised"] is None and r["exit"] in (None, 0):
                        bump("non-real-value-accepted-by-writer(no failure)")
                if sc.get("fp_kind") in OTHER_FP_KINDS:
                    bump("probe:fault-with-destination=" + sc["fp_kind"])
                pos = "first" if f[2] == 1 else ("last" if f[2] == N else ("boundary" if f[2] in boundaries else "interior"))
                bump("state:%s|%s|%s|%s|attempt%d-of-%d%s" % (meta["target"], sc["route"], site_of(f[4]), pos,
                                                              res["attempts"].index(r) + 1, len(res["attempts"]), "|touch" if r.get("touch") else ""))
                if f[2] == 1:
                    bump("probe:fault-at-first-evaluation")
                if f[2] == N:
                    bump("probe:fault-at-last-evaluation")
                if f[2] in boundaries:
                    bump("probe:fault-at-block-boundary")
                if "/deriv" in f[4]:
                    bump("probe:fault-in-derivative-evaluation")
                if r.get("touch"):
                    bump("probe:fault-while-reading-workbook")
            if a.get("k") is not None and not r.get("fired"):
                bump("probe:planned-fault-not-reached(cached state)")
        if any_fired:
            st["keys"].append(scenario_key(sc))
            if len(res["attempts"]) > 1:
                bump("probe:retry-after-failed-attempt")
                if meta["binary"]:
                    bump("probe:retry-after-failed-excel-write")
            if sc.get("shared_fp"):
                bump("probe:shared-fp-across-attempts")
            if sc["route"] == "cli":
                for r in res["attempts"]:
                    if r.get("fired"):
                        bump("cli-file-after-fault=" + r["file_after"]["state"] + ("(unchanged)" if r.get("unchanged") else ""))
        for x in v:
            if x["class"] == "HARNESS":
                st["harness"].append({"seed": seed, "k": k, "detail": x["detail"]})
            else:
                st["violations"].append(dict(x, scenario=sc))
        if len(st["samples"]) < 1 and any_fired:
            st["samples"].append(_sample(sc, res))
    return st


def run_in_child_subprocess(sc, scratch):
    from .core import run_in_child
    return run_in_child(execute_subprocess_cli, sc, timeout=120.0, scratch=scratch)


def _sample(sc, res):
    meta = sc["model"]["meta"]
    return {"seed": sc["seed"], "target": meta["target"], "route": sc["route"], "nr": meta["nr"], "nrho": meta["nrho"],
            "fp_kind": sc.get("fp_kind"), "natural_fault": meta.get("natural_fault"),
            "attempts_plan": sc["attempts"],
            "ini": mg.render_ini(sc["model"]) if not sc["model"].get("api") else None,
            "api_model": {k: v for k, v in sc["model"].items() if k != "meta"} if sc["model"].get("api") else None,
            "observed": [{"raised": a["raised"], "exit": a["exit"], "n_evals": a["n_evals"], "emitted_bytes": a["delta_len"],
                          "fired": a.get("fired")} for a in (res or {}).get("attempts", [])]}


def jobs(seed, tier, n=None):
    from .core import run_seed
    n = n or (QUICK_JOBS if tier == "quick" else THOROUGH_JOBS)
    for i in range(n):
        yield {"seed": run_seed(seed, PROP, i), "tier": tier, "index": i}


def replay(scenario, scratch):
    """Re-execute a recorded scenario; returns (violations, digest)."""
    ref, res, v = run_scenario(scenario, scratch)
    dg = (res or {}).get("events_digest")
    return [x for x in v], dg


# ----------------------------------------------------------------------------------------------
# minimisation
# ----------------------------------------------------------------------------------------------

def shrink_candidates(sc):
    """Yield smaller scenarios (coarse to fine)."""
    # 1. simplest plan: the (first) failing attempt then one fault-free attempt
    if len(sc["attempts"]) > 2:
        for i, a in enumerate(sc["attempts"]):
            if a.get("k") is not None:
                c = copy.deepcopy(sc)
                c["attempts"] = [dict(a), {"k": None}]
                yield c
    if len(sc["attempts"]) == 2 and sc["attempts"][-1].get("k") is None and sc["attempts"][0].get("k") is not None:
        c = copy.deepcopy(sc)
        c["attempts"] = [dict(sc["attempts"][0])]
        yield c
    for key, val in (("shared_fp", False), ("prepopulate", False), ("cli_target_override", False), ("fp_kind", "simfile")):
        if sc.get(key) not in (val, None):
            c = copy.deepcopy(sc)
            c[key] = val
            yield c
    for a_i, a in enumerate(sc["attempts"]):
        if a.get("kind") not in (None, "ValueError"):
            c = copy.deepcopy(sc)
            c["attempts"][a_i]["kind"] = "ValueError"
            yield c
    # 2. model: drop function entries / whole optional sections
    spec = sc["model"]
    if spec.get("api"):
        for c in _shrink_api(sc):
            yield c
        return
    for si, s in enumerate(spec["sections"]):
        if s["name"] in mg.FUNCTION_SECTIONS:
            for ei in range(len(s["entries"])):
                c = copy.deepcopy(sc)
                del c["model"]["sections"][si]["entries"][ei]
                c["_rescale_k"] = True
                yield c
        if s["name"] in ("Species", "Potential-Form") or s["name"].startswith("Table-Form"):
            c = copy.deepcopy(sc)
            del c["model"]["sections"][si]
            c["_rescale_k"] = True
            yield c
    # 3. simplify definitions
    for si, s in enumerate(spec["sections"]):
        if s["name"] in mg.FUNCTION_SECTIONS:
            for ei, (k, d) in enumerate(s["entries"]):
                if d != "as.constant 1.0":
                    c = copy.deepcopy(sc)
                    c["model"]["sections"][si]["entries"][ei][1] = "as.constant 1.0"
                    yield c
    # 4. smaller grids
    meta = spec["meta"]
    small_nr = 8 if meta["target"] == "DLPOLY" else 4
    if meta["nr"] > small_nr:
        c = copy.deepcopy(sc)
        mg.set_tab(c["model"], "nr", str(small_nr))
        c["model"]["meta"]["nr"] = small_nr
        c["_rescale_k"] = True
        yield c
    if meta.get("nrho") and meta["nrho"] > 3:
        c = copy.deepcopy(sc)
        mg.set_tab(c["model"], "nrho", "3")
        c["model"]["meta"]["nrho"] = 3
        c["_rescale_k"] = True
        yield c
    # 5. move the crash point to the first evaluation of its function / to 1
    for a_i, a in enumerate(sc["attempts"]):
        if a.get("k") and a["k"] > 1:
            for nk in (1, a["k"] // 2, a["k"] - 1):
                if 1 <= nk < a["k"]:
                    c = copy.deepcopy(sc)
                    c["attempts"][a_i]["k"] = nk
                    yield c


def _shrink_api(sc):
    spec = sc["model"]
    const = {"k": "lambda", "name": "const", "p": [1.0]}
    for nm in ("pairs", "dipole", "quadrupole"):
        for i in range(len(spec[nm])):
            c = copy.deepcopy(sc)
            del c["model"][nm][i]
            c["_rescale_k"] = True
            yield c
    from .apimodel import function_slots, _resolve
    for path in function_slots(spec):
        holder, key = _resolve(spec, path)
        if holder[key] != const and holder[key].get("k") != "failing":
            c = copy.deepcopy(sc)
            h2, k2 = _resolve(c["model"], path)
            h2[k2] = dict(const)
            yield c
    for key, small in (("nr", 8 if "DL" in spec["writer"] and "EAM" not in spec["writer"] and "TABEAM" not in spec["writer"] else 4), ("nrho", 3)):
        if spec[key] > small:
            c = copy.deepcopy(sc)
            c["model"][key] = small
            c["model"]["meta"][key] = small
            c["_rescale_k"] = True
            yield c
    for a_i, a in enumerate(sc["attempts"]):
        if a.get("k") and a["k"] > 1:
            for nk in (1, a["k"] // 2, a["k"] - 1):
                if 1 <= nk < a["k"]:
                    c = copy.deepcopy(sc)
                    c["attempts"][a_i]["k"] = nk
                    yield c


def variants_for_rescale(c, scratch):
    """After the model shrank, the old k may lie beyond the new N: try a few positions."""
    ref = child(_child_ref, c, scratch)
    if ref.get("harness_error") or ref.get("build_error") or not ref.get("attempts"):
        return
    ra = ref["attempts"][0]
    if ra["raised"] is not None or ra["exit"] not in (None, 0):
        return
    N = ra["n_evals"]
    if N < 1:
        return
    ks = [a["k"] for a in c["attempts"] if a.get("k")]
    seen = set()
    for cand in ([min(k, N) for k in ks] + [N, 1, max(1, N // 2)]):
        if cand in seen:
            continue
        seen.add(cand)
        d = copy.deepcopy(c)
        d.pop("_rescale_k", None)
        for a in d["attempts"]:
            if a.get("k"):
                a["k"] = cand
        yield d


def minimise(sc, vclass, scratch, budget_s=60.0, max_candidates=200):
    import time
    t0 = time.monotonic()
    tried = 0
    cur = copy.deepcopy(sc)
    improved = True
    while improved and tried < max_candidates and time.monotonic() - t0 < budget_s:
        improved = False
        for c in shrink_candidates(cur):
            if tried >= max_candidates or time.monotonic() - t0 > budget_s:
                break
            cands = list(variants_for_rescale(c, scratch)) if c.get("_rescale_k") else [c]
            for d in cands:
                d.pop("_rescale_k", None)
                tried += 1
                _, _, v = run_scenario(d, scratch)
                if any(x["class"] == vclass for x in v):
                    cur = d
                    improved = True
                    break
            if improved:
                break
    cur.pop("_rescale_k", None)
    return cur, tried

ASSUMPTIONS = [
    "an evaluation failure is an Exception subclass raised by a model function (injected at an EvalPoint or natural); KeyboardInterrupt, I/O errors and non-numeric return values are out of scope",
    "the fault-free write of an independently built identical model, run in a different forked child, is the reference for 'the whole table'",
    "potable is exercised in-process through its real main() with sys.argv/stdout/stderr replaced; a sample of natural-fault scenarios is cross-checked against a true subprocess",
    "grids are small (nr<=24, nrho<=12): the writers' control flow does not depend on grid size",
]
COMPONENTS = {
    "real": ["atsim.potentials (parsers, builders, writers, tabulation classes, potable main())", "cexprtk", "pyparsing", "scipy", "openpyxl", "wrapt", "configparser"],
    "simulated": ["file object passed to write() (SimFile / io.StringIO / real file in tmpfs scratch)", "clock seen by zipfile/openpyxl (frozen)",
                  "sys.argv / stdout / stderr of potable", "evaluation failures (EvalPoint wrappers on the model functions)"],
    "stubbed": [],
}
EXPECTED_PROBES = ["evaluation-returns-non-real-value", "fault-with-destination=gzip", "fault-with-destination=seekliar", "fault-with-destination=rewindable", "fault-with-destination=writeonly", "medium-table-model", "large-table-model", "fault-at-first-evaluation", "fault-at-last-evaluation", "fault-at-block-boundary", "fault-in-derivative-evaluation",
                   "fault-while-reading-workbook", "retry-after-failed-attempt", "retry-after-failed-excel-write", "shared-fp-across-attempts"]
WALL_CAP = {"quick": 240.0, "thorough": 3300.0}
STATE_MEASURE = "distinct (target or writer, route, site of the failing function, position class first/last/block-boundary/interior, attempt index within the retry plan, via .workbook or write) combinations in which a fault fired"
