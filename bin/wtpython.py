#!/venv/bin/python
"""Run python code against the copy of atsim in $WT (default: cwd) (the venv's editable install points at /repo).

usage:  ./wtpython.py -m pytest -q ...      |  ./wtpython.py script.py args...  |  ./wtpython.py -c "code"
"""
import os, runpy, sys
wt = os.environ.get("WT") or os.getcwd()
import atsim
atsim.__path__[:] = [os.path.join(wt, "atsim")]
for f in list(sys.meta_path):
    mod = sys.modules.get(getattr(f, "__module__", "") or "")
    mp = getattr(mod, "MAPPING", None)
    if isinstance(mp, dict) and "atsim" in mp:
        mp["atsim"] = os.path.join(wt, "atsim")
        if "tests.config" in mp:
            mp["tests.config"] = os.path.join(wt, "tests", "config")
args = sys.argv[1:]
if not args:
    raise SystemExit(__doc__)
if args[0] == "-m":
    sys.argv = args[1:]
    sys.path.insert(0, os.getcwd())
    runpy.run_module(args[1], run_name="__main__", alter_sys=True)
elif args[0] == "-c":
    sys.argv = ["-c"] + args[2:]
    exec(compile(args[1], "<string>", "exec"), {"__name__": "__main__"})
else:
    sys.argv = args
    sys.path.insert(0, os.path.dirname(os.path.abspath(args[0])))
    runpy.run_path(args[0], run_name="__main__")
